(* Decoder completeness: every wire image (whatever its padding octets and reserved flag
   bits) of a tree whose nesting is within the budget is accepted, and the message returned
   abstracts to that tree with the natural stored lengths.  Consequences: the wire relation
   is functional (octets determine the tree) and encode-then-decode is the identity. *)
Require Import DV.Base.Bytes DV.Base.Utf8 DV.Model.Leaf DV.Spec.Wire DV.Model.Avp DV.Model.Message
  DV.Proofs.LeafFacts DV.Proofs.AvpFacts DV.Proofs.DecTotal DV.Proofs.DecSound.
Local Open Scope N_scope.

Definition CPa (d : dict) (a : savp) (bs : list byte) : Prop :=
  forall lim rest, (sdepth a <= lim)%nat ->
    exists f a', dec_avp f lim d (bs ++ rest) = Ok (a', rest) /\ abs a' = a /\ consistent a'
                 /\ a_len a' + a_pad a' = blen bs /\ nomm a' /\ 8 <= blen bs.

Definition CPms (d : dict) (ms : list savp) (body : list byte) : Prop :=
  forall lim rest off len, len = off + blen body -> len < 4294967296 -> (sdepth_list ms <= lim)%nat ->
    exists f ms', dec_members f lim d len off (body ++ rest) = Ok (ms', rest) /\ map abs ms' = ms
                  /\ consistent_list ms' /\ members_len ms' = blen body /\ nomm_list ms'.

Definition CPv (d : dict) (v : sval) (data : list byte) : Prop :=
  match v with
  | SLeaf l => leaf_wire l = true /\ data = enc_leaf l
  | SGrp ms => CPms d ms data
  end.

Lemma dec_complete d :
  (forall a bs, wire_avp d a bs -> CPa d a bs) /\
  (forall v data, wire_val d v data -> CPv d v data) /\
  (forall ms body, wire_avps d ms body -> CPms d ms body).
Proof.
  apply wire_mutind.
  - (* W *)
    intros c vd m p v data padb fl Hc Hvd Hwv IHv Hlen Hpad Hfl Hd lim rest Hdep.
    assert (Hbl : blen (be32 c ++ [fl] ++ be24 (hdr vd + blen data) ++ optbe32 vd ++ data ++ padb)
                  = hdr vd + blen data + pad4 (blen data)).
    { rewrite !blen_app, blen_be32, blen_be24, Hpad. change (blen [fl]) with 1. pose proof (blen_optbe32 vd). lia. }
    assert (Hshape : (be32 c ++ [fl] ++ be24 (hdr vd + blen data) ++ optbe32 vd ++ data ++ padb) ++ rest
                     = be32 c ++ [fl] ++ be24 (hdr vd + blen data) ++ optbe32 vd ++ (data ++ padb ++ rest)).
    { repeat rewrite <- app_assoc. reflexivity. }
    assert (Hskip : skipn (N.to_nat (pad4 (hdr vd + blen data - hdr vd))) (padb ++ rest) = rest).
    { apply skipn_blen_app. rewrite Hpad. f_equal. lia. }
    assert (Hvl : hdr vd + blen data - hdr vd = blen data) by lia.
    destruct v as [l|ms]; cbn [CPv] in IHv.
    + (* leaf *)
      destruct IHv as [Hw ->].
      exists 1%nat, (MkAvp c vd m p (hdr vd + blen (enc_leaf l)) (pad4 (blen (enc_leaf l))) (VLeaf l)).
      rewrite Hshape. cbn [dec_avp]. rewrite (dec_header_complete c fl _ vd m p _ Hfl Hc Hlen Hvd).
      destruct (N.ltb_spec (hdr vd + blen (enc_leaf l)) (hdr vd)); [lia|].
      rewrite Hd. cbn [sty_of]. rewrite leaf_ty_is_leaf. rewrite Hvl.
      rewrite (dec_enc_leaf l (blen (enc_leaf l)) (padb ++ rest) Hw (fun _ => eq_refl)).
      rewrite Hvl in Hskip. rewrite Hskip.
      pose proof (leaf_len_enc l (leaf_wire_rep l Hw)) as Hll.
      split; [reflexivity|]. split; [reflexivity|]. split; [|split; [|split]].
      * cbn [consistent consistent_val val_len]. rewrite Hll. repeat split.
      * cbn [a_len a_pad]. lia.
      * cbn [nomm]. pose proof (dec_enc_leaf l (blen (enc_leaf l)) [] Hw (fun _ => eq_refl)) as Hdd.
        apply dec_leaf_sound in Hdd. destruct Hdd as (_ & _ & _ & Hsz). unfold size_agrees in Hsz.
        destruct (fixed_size (leaf_ty l)); [lia | exact I].
      * destruct vd; cbn [hdr] in *; lia.
    + (* grouped *)
      rewrite sdepth_grp in Hdep. destruct lim as [|lim']; [lia|].
      destruct (IHv lim' (padb ++ rest) 0 (blen data)) as (f & ms' & Em & Eabs & Hcl & Hml & Hnl); [lia | lia | lia |].
      exists (S f), (MkAvp c vd m p (hdr vd + blen data) (pad4 (blen data)) (VGrp ms')).
      rewrite Hshape. cbn [dec_avp]. rewrite (dec_header_complete c fl _ vd m p _ Hfl Hc Hlen Hvd).
      destruct (N.ltb_spec (hdr vd + blen data) (hdr vd)); [lia|].
      rewrite Hd. cbn [sty_of is_leaf_ty]. rewrite Hvl.
      rewrite Em. rewrite Hvl in Hskip. rewrite Hskip.
      split; [reflexivity|]. split; [|split; [|split; [|split]]].
      * cbn [abs abs_val]. rewrite Eabs. reflexivity.
      * cbn [consistent val_len]. rewrite Hml. repeat split. exact Hcl.
      * cbn [a_len a_pad]. lia.
      * cbn [nomm]. exact Hnl.
      * destruct vd; cbn [hdr] in *; lia.
  - (* WLeaf *) intros l Hw. cbn. auto.
  - (* WGrp *) intros ms data _ IH. exact IH.
  - (* WNil *)
    intros lim rest off len Hlen _ _. exists 1%nat, []. cbn [dec_members app].
    change (blen []) with 0 in Hlen.
    destruct (N.ltb_spec off len); [lia|]. destruct (N.eqb_spec off len); [|lia].
    split; [reflexivity|]. split; [reflexivity|]. split; [exact I|]. split; [reflexivity | exact I].
  - (* WCons *)
    intros a bs ms rest0 _ IHa _ IHms lim rest off len Hlen Hlt Hdep.
    rewrite sdepth_list_cons in Hdep.
    destruct (IHa lim (rest0 ++ rest)) as (f1 & a' & Ea & Eabs & Hca & Hla & Hna & H8); [lia|].
    rewrite blen_app in Hlen.
    destruct (IHms lim rest (off + blen bs) len) as (f2 & ms' & Em & Eabs' & Hcl & Hml & Hnl); [lia | lia | lia |].
    exists (S (Nat.max f1 f2)), (a' :: ms'). cbn [dec_members].
    destruct (N.ltb_spec off len); [|lia].
    rewrite <- app_assoc.
    rewrite (fuel_mono_avp d f1 (Nat.max f1 f2) lim _ _ (Nat.le_max_l _ _) Ea) by discriminate.
    destruct (N.leb_spec 4294967296 (off + a_len a' + a_pad a')); [lia|].
    replace (off + a_len a' + a_pad a') with (off + blen bs) by lia.
    rewrite (fuel_mono_members d f2 (Nat.max f1 f2) lim _ _ _ _ (Nat.le_max_r _ _) Em) by discriminate.
    cbn [map]. rewrite consistent_list_cons, members_len_cons, nomm_list_cons, blen_app, Eabs, Eabs'.
    split; [reflexivity|]. split; [reflexivity|]. split; [auto|]. split; [lia | auto].
Qed.

(* ---------- message level ---------- *)
Definition smsg_depth (m : smsg) : nat := sdepth_list (s_avps m).

Theorem dec_msg_complete lim d sm bs :
  wire_msg d sm bs -> known_cmd (s_cmd sm) = true -> known_app (s_app sm) = true ->
  (smsg_depth sm <= lim)%nat ->
  exists m, dec_msg lim d bs = Ok m /\ abs_msg m = sm /\ msg_consistent m /\ msg_nomm m.
Proof.
  intros (body & HW & (Hv & Hf & Hc & Ha & Hh & He) & Hlen & ->) Hkc Hka Hdep.
  destruct (proj2 (proj2 (dec_complete d)) _ _ HW lim [] 20 (20 + blen body)) as (f & ms' & Em & Eabs & Hcl & Hml & Hnl);
    [reflexivity | lia | exact Hdep |].
  rewrite app_nil_r in Em. apply members_canonical_fuel in Em.
  exists (MkMsg (s_ver sm) (20 + blen body) (s_flags sm) (s_cmd sm) (s_app sm) (s_hbh sm) (s_e2e sm) ms').
  unfold spec_hdr, be24 at 1 2. unfold be32. cbn [app]. unfold dec_msg. cbv zeta.
  change [b_of_N ((20 + blen body) / 256 / 256); b_of_N ((20 + blen body) / 256); b_of_N (20 + blen body)] with (be24 (20 + blen body)).
  change [b_of_N (s_cmd sm / 256 / 256); b_of_N (s_cmd sm / 256); b_of_N (s_cmd sm)] with (be24 (s_cmd sm)).
  change [b_of_N (s_app sm / 256 / 256 / 256); b_of_N (s_app sm / 256 / 256); b_of_N (s_app sm / 256); b_of_N (s_app sm)] with (be32 (s_app sm)).
  change [b_of_N (s_hbh sm / 256 / 256 / 256); b_of_N (s_hbh sm / 256 / 256); b_of_N (s_hbh sm / 256); b_of_N (s_hbh sm)] with (be32 (s_hbh sm)).
  change [b_of_N (s_e2e sm / 256 / 256 / 256); b_of_N (s_e2e sm / 256 / 256); b_of_N (s_e2e sm / 256); b_of_N (s_e2e sm)] with (be32 (s_e2e sm)).
  rewrite !un_be24, !un_be32 by assumption. rewrite Hkc, Hka. cbn [andb]. rewrite Em.
  rewrite !to_N_b_of_N, !N.mod_small by assumption.
  split; [reflexivity|]. split; [|split].
  - unfold abs_msg. cbn. rewrite Eabs. destruct sm; reflexivity.
  - split; [exact Hcl | cbn [m_len m_avps]; lia].
  - exact Hnl.
Qed.

(* the octets determine the tree *)
Theorem wire_msg_functional d sm1 sm2 bs :
  wire_msg d sm1 bs -> wire_msg d sm2 bs -> sm1 = sm2.
Proof.
  intros (body1 & HW1 & R1 & L1 & E1) (body2 & HW2 & R2 & L2 & E2).
  (* header fields are read back from the same octets *)
  destruct R1 as (Hv1 & Hf1 & Hc1 & Ha1 & Hh1 & He1). destruct R2 as (Hv2 & Hf2 & Hc2 & Ha2 & Hh2 & He2).
  assert (Hhead : firstn 20 bs = spec_hdr sm1 (20 + blen body1) /\ skipn 20 bs = body1).
  { rewrite E1. split; [apply (firstn_app_exact (spec_hdr sm1 (20 + blen body1)) body1 20 eq_refl)
                       | apply (skipn_app_exact (spec_hdr sm1 (20 + blen body1)) body1 20 eq_refl)]. }
  assert (Hhead2 : firstn 20 bs = spec_hdr sm2 (20 + blen body2) /\ skipn 20 bs = body2).
  { rewrite E2. split; [apply (firstn_app_exact (spec_hdr sm2 (20 + blen body2)) body2 20 eq_refl)
                       | apply (skipn_app_exact (spec_hdr sm2 (20 + blen body2)) body2 20 eq_refl)]. }
  destruct Hhead as [H1 B1]. destruct Hhead2 as [H2 B2].
  assert (Hb : body2 = body1) by congruence. clear B1 B2. subst body2.
  rewrite H1 in H2. unfold spec_hdr in H2.
  apply app_inj_len in H2; [|reflexivity]. destruct H2 as [Ev H2].
  apply app_inj_len in H2; [|reflexivity]. destruct H2 as [_ H2].
  apply app_inj_len in H2; [|reflexivity]. destruct H2 as [Ef H2].
  apply app_inj_len in H2; [|reflexivity]. destruct H2 as [Ec H2].
  apply app_inj_len in H2; [|reflexivity]. destruct H2 as [Ea H2].
  apply app_inj_len in H2; [|reflexivity]. destruct H2 as [Eh Ee].
  assert (s_ver sm1 = s_ver sm2).
  { inversion Ev as [Hb]. apply (f_equal Byte.to_N) in Hb. rewrite !to_N_b_of_N, !N.mod_small in Hb by assumption. exact Hb. }
  assert (s_flags sm1 = s_flags sm2).
  { inversion Ef as [Hb]. apply (f_equal Byte.to_N) in Hb. rewrite !to_N_b_of_N, !N.mod_small in Hb by assumption. exact Hb. }
  assert (s_cmd sm1 = s_cmd sm2) by (apply (f_equal un_be) in Ec; rewrite !un_be24 in Ec by assumption; exact Ec).
  assert (s_app sm1 = s_app sm2) by (apply (f_equal un_be) in Ea; rewrite !un_be32 in Ea by assumption; exact Ea).
  assert (s_hbh sm1 = s_hbh sm2) by (apply (f_equal un_be) in Eh; rewrite !un_be32 in Eh by assumption; exact Eh).
  assert (s_e2e sm1 = s_e2e sm2) by (apply (f_equal un_be) in Ee; rewrite !un_be32 in Ee by assumption; exact Ee).
  (* the AVP lists: decode the same body with a budget large enough for both *)
  set (lim := Nat.max (sdepth_list (s_avps sm1)) (sdepth_list (s_avps sm2))).
  destruct (proj2 (proj2 (dec_complete d)) _ _ HW1 lim [] 20 (20 + blen body1)) as (f1 & ms1 & Em1 & Eabs1 & _);
    [reflexivity | lia | apply Nat.le_max_l |].
  destruct (proj2 (proj2 (dec_complete d)) _ _ HW2 lim [] 20 (20 + blen body1)) as (f2 & ms2 & Em2 & Eabs2 & _);
    [reflexivity | lia | apply Nat.le_max_r |].
  apply members_canonical_fuel in Em1. apply members_canonical_fuel in Em2. rewrite Em1 in Em2. inversion Em2; subst ms2.
  destruct sm1, sm2; cbn in *; subst. reflexivity.
Qed.
