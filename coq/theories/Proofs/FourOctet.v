(* C17: the fixed-size value formats, for every one of the 2^32 (2^64) octet patterns.
   Every pattern decodes (totality), to the value RFC 6733 section 4.2/4.3 assigns (closed
   forms below), and that value encodes back to the same octets; conversely every wire value
   of the type is the image of exactly one pattern.  All statements are symbolic in the
   octets b0..b3 (b0..b7), i.e. quantify over all patterns. *)
Require Import DV.Base.Bytes DV.Base.Calendar DV.Base.Utf8 DV.Model.Leaf DV.Proofs.LeafFacts.
Local Open Scope N_scope.

Definition four_octet (t : ty) : bool :=
  match t with TU32 | TI32 | TEnum | TF32 | TTime | TIPv4 => true | _ => false end.
Definition eight_octet (t : ty) : bool :=
  match t with TU64 | TI64 | TF64 => true | _ => false end.

(* network byte order: b0 is the most significant octet *)
Definition val4 (b0 b1 b2 b3 : byte) : N :=
  Byte.to_N b0 * 2 ^ 24 + Byte.to_N b1 * 2 ^ 16 + Byte.to_N b2 * 2 ^ 8 + Byte.to_N b3.
Definition val8 (b0 b1 b2 b3 b4 b5 b6 b7 : byte) : N :=
  Byte.to_N b0 * 2 ^ 56 + Byte.to_N b1 * 2 ^ 48 + Byte.to_N b2 * 2 ^ 40 + Byte.to_N b3 * 2 ^ 32 +
  Byte.to_N b4 * 2 ^ 24 + Byte.to_N b5 * 2 ^ 16 + Byte.to_N b6 * 2 ^ 8 + Byte.to_N b7.

(* two's complement reading of an unsigned k-bit number *)
Definition twos32 (n : N) : Z :=
  (if Z.of_N n <? 2 ^ 31 then Z.of_N n else Z.of_N n - 2 ^ 32)%Z.
Definition twos64 (n : N) : Z :=
  (if Z.of_N n <? 2 ^ 63 then Z.of_N n else Z.of_N n - 2 ^ 64)%Z.

Lemma un_be4_val b0 b1 b2 b3 : un_be [b0; b1; b2; b3] = val4 b0 b1 b2 b3.
Proof.
  unfold un_be, val4. cbn [fold_left].
  change (2 ^ 24) with 16777216. change (2 ^ 16) with 65536. change (2 ^ 8) with 256. lia.
Qed.

Lemma un_be8_val b0 b1 b2 b3 b4 b5 b6 b7 :
  un_be [b0; b1; b2; b3; b4; b5; b6; b7] = val8 b0 b1 b2 b3 b4 b5 b6 b7.
Proof.
  unfold un_be, val8. cbn [fold_left].
  change (2 ^ 56) with 72057594037927936. change (2 ^ 48) with 281474976710656.
  change (2 ^ 40) with 1099511627776. change (2 ^ 32) with 4294967296.
  change (2 ^ 24) with 16777216. change (2 ^ 16) with 65536. change (2 ^ 8) with 256. lia.
Qed.

Lemma val4_lt b0 b1 b2 b3 : val4 b0 b1 b2 b3 < 2 ^ 32.
Proof. rewrite <- un_be4_val. apply un_be4_lt. Qed.
Lemma val8_lt b0 b1 b2 b3 b4 b5 b6 b7 : val8 b0 b1 b2 b3 b4 b5 b6 b7 < 2 ^ 64.
Proof. rewrite <- un_be8_val. apply un_be8_lt. Qed.

Lemma z_of_u32_twos n : z_of_u32 n = twos32 n.
Proof.
  unfold z_of_u32, z_of_u, twos32. change (2 ^ (32 - 1)) with 2147483648.
  change (Z.of_N (2 ^ 32)) with 4294967296%Z. change (2 ^ 31)%Z with 2147483648%Z. change (2 ^ 32)%Z with 4294967296%Z.
  destruct (N.ltb_spec n 2147483648); destruct (Z.ltb_spec (Z.of_N n) 2147483648); lia.
Qed.
Lemma z_of_u64_twos n : z_of_u64 n = twos64 n.
Proof.
  unfold z_of_u64, z_of_u, twos64. change (2 ^ (64 - 1)) with 9223372036854775808.
  change (Z.of_N (2 ^ 64)) with 18446744073709551616%Z.
  change (2 ^ 63)%Z with 9223372036854775808%Z. change (2 ^ 64)%Z with 18446744073709551616%Z.
  destruct (N.ltb_spec n 9223372036854775808); destruct (Z.ltb_spec (Z.of_N n) 9223372036854775808); lia.
Qed.

(* ---------- the decoded value, in closed form ---------- *)

(* Unsigned32: the unsigned number b0*2^24 + b1*2^16 + b2*2^8 + b3 *)
Lemma dec4_value_u32 b0 b1 b2 b3 rest vl :
  dec_leaf TU32 vl ([b0; b1; b2; b3] ++ rest) =
  Some (LU32 (Byte.to_N b0 * 2 ^ 24 + Byte.to_N b1 * 2 ^ 16 + Byte.to_N b2 * 2 ^ 8 + Byte.to_N b3), rest).
Proof. cbn [dec_leaf]. rewrite read4_app, un_be4_val. reflexivity. Qed.

(* Integer32: that number read as 32-bit two's complement *)
Lemma dec4_value_i32 b0 b1 b2 b3 rest vl :
  dec_leaf TI32 vl ([b0; b1; b2; b3] ++ rest) =
  Some (LI32 (let n := Z.of_N (Byte.to_N b0 * 2 ^ 24 + Byte.to_N b1 * 2 ^ 16 + Byte.to_N b2 * 2 ^ 8 + Byte.to_N b3) in
              if n <? 2 ^ 31 then n else n - 2 ^ 32)%Z, rest).
Proof. cbn [dec_leaf]. rewrite read4_app, un_be4_val, z_of_u32_twos. reflexivity. Qed.

(* Enumerated: same format as Integer32 *)
Lemma dec4_value_enum b0 b1 b2 b3 rest vl :
  dec_leaf TEnum vl ([b0; b1; b2; b3] ++ rest) =
  Some (LEnum (let n := Z.of_N (Byte.to_N b0 * 2 ^ 24 + Byte.to_N b1 * 2 ^ 16 + Byte.to_N b2 * 2 ^ 8 + Byte.to_N b3) in
               if n <? 2 ^ 31 then n else n - 2 ^ 32)%Z, rest).
Proof. cbn [dec_leaf]. rewrite read4_app, un_be4_val, z_of_u32_twos. reflexivity. Qed.

(* Float32: the IEEE-754 single whose 32-bit pattern is b0 b1 b2 b3, sign bit first *)
Lemma dec4_value_f32 b0 b1 b2 b3 rest vl :
  dec_leaf TF32 vl ([b0; b1; b2; b3] ++ rest) =
  Some (LF32 (Byte.to_N b0 * 2 ^ 24 + Byte.to_N b1 * 2 ^ 16 + Byte.to_N b2 * 2 ^ 8 + Byte.to_N b3), rest).
Proof. cbn [dec_leaf]. rewrite read4_app, un_be4_val. reflexivity. Qed.

(* Time: the instant n seconds after 1900-01-01T00:00:00Z, held as seconds relative to
   1970-01-01T00:00:00Z *)
Lemma dec4_value_time b0 b1 b2 b3 rest vl :
  dec_leaf TTime vl ([b0; b1; b2; b3] ++ rest) =
  Some (LTime (Z.of_N (Byte.to_N b0 * 2 ^ 24 + Byte.to_N b1 * 2 ^ 16 + Byte.to_N b2 * 2 ^ 8 + Byte.to_N b3)
               - 2208988800)%Z, rest).
Proof. cbn [dec_leaf]. rewrite read4_app, un_be4_val. reflexivity. Qed.

(* IPv4 address: the dotted quad b0.b1.b2.b3 *)
Lemma dec4_value_ipv4 b0 b1 b2 b3 rest vl :
  dec_leaf TIPv4 vl ([b0; b1; b2; b3] ++ rest) = Some (LIPv4 [b0; b1; b2; b3], rest).
Proof. cbn [dec_leaf]. rewrite (take_app_n [b0; b1; b2; b3] rest 4) by reflexivity. reflexivity. Qed.

Lemma dec8_value_u64 b0 b1 b2 b3 b4 b5 b6 b7 rest vl :
  dec_leaf TU64 vl ([b0; b1; b2; b3; b4; b5; b6; b7] ++ rest) =
  Some (LU64 (Byte.to_N b0 * 2 ^ 56 + Byte.to_N b1 * 2 ^ 48 + Byte.to_N b2 * 2 ^ 40 + Byte.to_N b3 * 2 ^ 32 +
              Byte.to_N b4 * 2 ^ 24 + Byte.to_N b5 * 2 ^ 16 + Byte.to_N b6 * 2 ^ 8 + Byte.to_N b7), rest).
Proof. cbn [dec_leaf]. rewrite read8_app, un_be8_val. reflexivity. Qed.

Lemma dec8_value_i64 b0 b1 b2 b3 b4 b5 b6 b7 rest vl :
  dec_leaf TI64 vl ([b0; b1; b2; b3; b4; b5; b6; b7] ++ rest) =
  Some (LI64 (let n := Z.of_N (Byte.to_N b0 * 2 ^ 56 + Byte.to_N b1 * 2 ^ 48 + Byte.to_N b2 * 2 ^ 40 + Byte.to_N b3 * 2 ^ 32 +
                               Byte.to_N b4 * 2 ^ 24 + Byte.to_N b5 * 2 ^ 16 + Byte.to_N b6 * 2 ^ 8 + Byte.to_N b7) in
              if n <? 2 ^ 63 then n else n - 2 ^ 64)%Z, rest).
Proof. cbn [dec_leaf]. rewrite read8_app, un_be8_val, z_of_u64_twos. reflexivity. Qed.

Lemma dec8_value_f64 b0 b1 b2 b3 b4 b5 b6 b7 rest vl :
  dec_leaf TF64 vl ([b0; b1; b2; b3; b4; b5; b6; b7] ++ rest) =
  Some (LF64 (Byte.to_N b0 * 2 ^ 56 + Byte.to_N b1 * 2 ^ 48 + Byte.to_N b2 * 2 ^ 40 + Byte.to_N b3 * 2 ^ 32 +
              Byte.to_N b4 * 2 ^ 24 + Byte.to_N b5 * 2 ^ 16 + Byte.to_N b6 * 2 ^ 8 + Byte.to_N b7), rest).
Proof. cbn [dec_leaf]. rewrite read8_app, un_be8_val. reflexivity. Qed.

(* ---------- totality + re-encoding, all 2^32 / 2^64 patterns ---------- *)

Lemma dec4_some t b0 b1 b2 b3 rest vl :
  four_octet t = true -> exists l, dec_leaf t vl ([b0; b1; b2; b3] ++ rest) = Some (l, rest).
Proof.
  destruct t; cbn [four_octet]; try discriminate; intros _; eexists.
  - apply dec4_value_ipv4.
  - apply dec4_value_enum.
  - apply dec4_value_f32.
  - apply dec4_value_i32.
  - apply dec4_value_time.
  - apply dec4_value_u32.
Qed.

Lemma dec8_some t b0 b1 b2 b3 b4 b5 b6 b7 rest vl :
  eight_octet t = true -> exists l, dec_leaf t vl ([b0; b1; b2; b3; b4; b5; b6; b7] ++ rest) = Some (l, rest).
Proof.
  destruct t; cbn [eight_octet]; try discriminate; intros _; eexists.
  - apply dec8_value_f64.
  - apply dec8_value_i64.
  - apply dec8_value_u64.
Qed.

Lemma four_octet_fixed t : four_octet t = true -> fixed_size t = Some 4.
Proof. destruct t; cbn; try discriminate; reflexivity. Qed.
Lemma eight_octet_fixed t : eight_octet t = true -> fixed_size t = Some 8.
Proof. destruct t; cbn; try discriminate; reflexivity. Qed.

Lemma app_inv_blen (a a' b : list byte) : a ++ b = a' ++ b -> a = a'.
Proof. apply app_inv_tail. Qed.

Theorem dec4_total t b0 b1 b2 b3 rest vl :
  four_octet t = true ->
  exists l, dec_leaf t vl ([b0; b1; b2; b3] ++ rest) = Some (l, rest) /\
            leaf_ty l = t /\ enc_leaf l = [b0; b1; b2; b3] /\ leaf_wire l = true.
Proof.
  intros Ht. destruct (dec4_some t b0 b1 b2 b3 rest vl Ht) as [l Hl].
  exists l. split; [exact Hl|].
  apply dec_leaf_sound in Hl. destruct Hl as (Happ & Hty & Hw & _).
  repeat split; try assumption.
  symmetry. apply (app_inv_tail rest). exact Happ.
Qed.

Theorem dec8_total t b0 b1 b2 b3 b4 b5 b6 b7 rest vl :
  eight_octet t = true ->
  exists l, dec_leaf t vl ([b0; b1; b2; b3; b4; b5; b6; b7] ++ rest) = Some (l, rest) /\
            leaf_ty l = t /\ enc_leaf l = [b0; b1; b2; b3; b4; b5; b6; b7] /\ leaf_wire l = true.
Proof.
  intros Ht. destruct (dec8_some t b0 b1 b2 b3 b4 b5 b6 b7 rest vl Ht) as [l Hl].
  exists l. split; [exact Hl|].
  apply dec_leaf_sound in Hl. destruct Hl as (Happ & Hty & Hw & _).
  repeat split; try assumption.
  symmetry. apply (app_inv_tail rest). exact Happ.
Qed.

(* ---------- encode then decode, every wire value of the type ---------- *)

Theorem enc4_dec4 l rest vl :
  four_octet (leaf_ty l) = true -> leaf_wire l = true ->
  dec_leaf (leaf_ty l) vl (enc_leaf l ++ rest) = Some (l, rest).
Proof.
  intros Ht Hw. apply dec_enc_leaf; [exact Hw|].
  rewrite (four_octet_fixed _ Ht). discriminate.
Qed.

Theorem enc8_dec8 l rest vl :
  eight_octet (leaf_ty l) = true -> leaf_wire l = true ->
  dec_leaf (leaf_ty l) vl (enc_leaf l ++ rest) = Some (l, rest).
Proof.
  intros Ht Hw. apply dec_enc_leaf; [exact Hw|].
  rewrite (eight_octet_fixed _ Ht). discriminate.
Qed.

Theorem enc4_len l : four_octet (leaf_ty l) = true -> leaf_wire l = true -> blen (enc_leaf l) = 4.
Proof.
  intros Ht Hw. apply leaf_wire_rep in Hw. rewrite <- (leaf_len_enc l Hw).
  destruct l; cbn [leaf_ty four_octet] in Ht; try discriminate; reflexivity.
Qed.

Theorem enc8_len l : eight_octet (leaf_ty l) = true -> leaf_wire l = true -> blen (enc_leaf l) = 8.
Proof.
  intros Ht Hw. apply leaf_wire_rep in Hw. rewrite <- (leaf_len_enc l Hw).
  destruct l; cbn [leaf_ty eight_octet] in Ht; try discriminate; reflexivity.
Qed.

Lemma blen4 (s : list byte) : blen s = 4 -> exists b0 b1 b2 b3, s = [b0; b1; b2; b3].
Proof.
  unfold blen. destruct s as [|b0 [|b1 [|b2 [|b3 [|b4 s]]]]]; cbn [length]; intros H; try lia.
  exists b0, b1, b2, b3. reflexivity.
Qed.
Lemma blen8 (s : list byte) : blen s = 8 ->
  exists b0 b1 b2 b3 b4 b5 b6 b7, s = [b0; b1; b2; b3; b4; b5; b6; b7].
Proof.
  unfold blen. destruct s as [|b0 [|b1 [|b2 [|b3 [|b4 [|b5 [|b6 [|b7 [|b8 s]]]]]]]]]; cbn [length]; intros H; try lia.
  exists b0, b1, b2, b3, b4, b5, b6, b7. reflexivity.
Qed.

(* every wire value of a four-octet type is the decoding of some four-octet pattern *)
Theorem dec4_surj l :
  four_octet (leaf_ty l) = true -> leaf_wire l = true ->
  exists b0 b1 b2 b3, enc_leaf l = [b0; b1; b2; b3] /\
    forall rest vl, dec_leaf (leaf_ty l) vl ([b0; b1; b2; b3] ++ rest) = Some (l, rest).
Proof.
  intros Ht Hw. destruct (blen4 _ (enc4_len l Ht Hw)) as (b0 & b1 & b2 & b3 & E).
  exists b0, b1, b2, b3. split; [exact E|]. intros rest vl. rewrite <- E. apply enc4_dec4; assumption.
Qed.

Theorem dec8_surj l :
  eight_octet (leaf_ty l) = true -> leaf_wire l = true ->
  exists b0 b1 b2 b3 b4 b5 b6 b7, enc_leaf l = [b0; b1; b2; b3; b4; b5; b6; b7] /\
    forall rest vl, dec_leaf (leaf_ty l) vl ([b0; b1; b2; b3; b4; b5; b6; b7] ++ rest) = Some (l, rest).
Proof.
  intros Ht Hw. destruct (blen8 _ (enc8_len l Ht Hw)) as (b0 & b1 & b2 & b3 & b4 & b5 & b6 & b7 & E).
  exists b0, b1, b2, b3, b4, b5, b6, b7. split; [exact E|]. intros rest vl. rewrite <- E. apply enc8_dec8; assumption.
Qed.

(* two patterns that decode to the same value are the same pattern *)
Theorem dec4_inj t a0 a1 a2 a3 c0 c1 c2 c3 rest rest' vl vl' l :
  four_octet t = true ->
  dec_leaf t vl ([a0; a1; a2; a3] ++ rest) = Some (l, rest) ->
  dec_leaf t vl' ([c0; c1; c2; c3] ++ rest') = Some (l, rest') ->
  [a0; a1; a2; a3] = [c0; c1; c2; c3].
Proof.
  intros _ H1 H2.
  apply dec_leaf_sound in H1, H2. destruct H1 as (E1 & _). destruct H2 as (E2 & _).
  apply app_inv_tail in E1, E2. rewrite E1, E2. reflexivity.
Qed.

Theorem dec8_inj t a0 a1 a2 a3 a4 a5 a6 a7 c0 c1 c2 c3 c4 c5 c6 c7 rest rest' vl vl' l :
  eight_octet t = true ->
  dec_leaf t vl ([a0; a1; a2; a3; a4; a5; a6; a7] ++ rest) = Some (l, rest) ->
  dec_leaf t vl' ([c0; c1; c2; c3; c4; c5; c6; c7] ++ rest') = Some (l, rest') ->
  [a0; a1; a2; a3; a4; a5; a6; a7] = [c0; c1; c2; c3; c4; c5; c6; c7].
Proof.
  intros _ H1 H2.
  apply dec_leaf_sound in H1, H2. destruct H1 as (E1 & _). destruct H2 as (E2 & _).
  apply app_inv_tail in E1, E2. rewrite E1, E2. reflexivity.
Qed.

(* contrapositive form: different patterns, different values *)
Corollary dec4_inj_neq t a0 a1 a2 a3 c0 c1 c2 c3 rest rest' vl vl' l l' :
  four_octet t = true ->
  [a0; a1; a2; a3] <> [c0; c1; c2; c3] ->
  dec_leaf t vl ([a0; a1; a2; a3] ++ rest) = Some (l, rest) ->
  dec_leaf t vl' ([c0; c1; c2; c3] ++ rest') = Some (l', rest') ->
  l <> l'.
Proof.
  intros Ht Hne H1 H2 El. subst l'. apply Hne.
  exact (dec4_inj t _ _ _ _ _ _ _ _ _ _ _ _ _ Ht H1 H2).
Qed.

(* ---------- Time: the epoch and the two ends of the range ---------- *)

(* 2208988800 = number of seconds from 1900-01-01T00:00:00Z to 1970-01-01T00:00:00Z *)
Lemma epoch_offset_derived :
  ((days_from_civil 1970 1 1 - days_from_civil 1900 1 1) * 86400 = rfc868_offset)%Z.
Proof. exact epoch_offset_seconds. Qed.

Lemma time_lower_limit : civil_of_unix (0 - rfc868_offset) = (1900, 1, 1, 0, 0, 0)%Z.
Proof. exact time_lower_limit_raw. Qed.

Lemma time_upper_limit : civil_of_unix (4294967295 - rfc868_offset) = (2036, 2, 7, 6, 28, 15)%Z.
Proof. exact time_upper_limit_raw. Qed.

(* the value LTime (n - offset) is the instant n seconds after 1900-01-01T00:00:00Z *)
Lemma time_is_seconds_since_1900 (n : N) :
  (Z.of_N n - rfc868_offset = days_from_civil 1900 1 1 * 86400 + Z.of_N n)%Z.
Proof. rewrite epoch_1900. unfold rfc868_offset. lia. Qed.

(* ... and its calendar reading (y-m-d hh:mm:ss, UTC) is a valid date and time of day lying
   exactly n seconds after 1900-01-01 00:00:00 *)
Theorem time_calendar_reading (n : N) y m d hh mm ss :
  civil_of_unix (Z.of_N n - rfc868_offset) = (y, m, d, hh, mm, ss) ->
  (valid_date y m d /\ 0 <= hh < 24 /\ 0 <= mm < 60 /\ 0 <= ss < 60 /\
   Z.of_N n = (days_from_civil y m d - days_from_civil 1900 1 1) * 86400 + hh * 3600 + mm * 60 + ss)%Z.
Proof.
  intros H. apply civil_of_unix_spec in H. destruct H as (Hv & Hh & Hm & Hs & Ht).
  repeat split; try assumption; try lia.
  rewrite epoch_1900. unfold rfc868_offset in Ht. lia.
Qed.

(* conversely, the date y-m-d hh:mm:ss that lies n seconds after 1900-01-01 00:00:00 is what
   the decoded value reads as *)
Theorem time_calendar_complete (n : N) y m d hh mm ss :
  (valid_date y m d -> 0 <= hh < 24 -> 0 <= mm < 60 -> 0 <= ss < 60 ->
   Z.of_N n = (days_from_civil y m d - days_from_civil 1900 1 1) * 86400 + hh * 3600 + mm * 60 + ss ->
   civil_of_unix (Z.of_N n - rfc868_offset) = (y, m, d, hh, mm, ss))%Z.
Proof.
  intros Hv Hh Hm Hs Hn. rewrite <- (civil_of_unix_complete y m d hh mm ss Hv Hh Hm Hs).
  f_equal. rewrite Hn, epoch_1900. unfold rfc868_offset. lia.
Qed.

(* ---------- non-vacuity ---------- *)

Example dec4_total_nonvacuous :
  four_octet TTime = true /\
  dec_leaf TTime 4 ([xe9; x48; xf1; x8e] ++ [x01]) = Some (LTime 1704882958, [x01]) /\
  enc_leaf (LTime 1704882958) = [xe9; x48; xf1; x8e] /\
  civil_of_unix 1704882958 = (2024, 1, 10, 10, 35, 58)%Z.
Proof. repeat split; vm_compute; reflexivity. Qed.

Example dec4_i32_nonvacuous :
  dec_leaf TI32 4 ([xff; xff; xff; xfe] ++ []) = Some (LI32 (-2), []) /\
  dec_leaf TI32 4 ([x80; x00; x00; x00] ++ []) = Some (LI32 (-2147483648), []) /\
  dec_leaf TU32 4 ([xff; xff; xff; xfe] ++ []) = Some (LU32 4294967294, []) /\
  dec_leaf TIPv4 4 ([x7f; x00; x00; x01] ++ []) = Some (LIPv4 [x7f; x00; x00; x01], []).
Proof. repeat split; vm_compute; reflexivity. Qed.

Example enc4_dec4_nonvacuous :
  four_octet (leaf_ty (LF32 1078530011)) = true /\ leaf_wire (LF32 1078530011) = true /\
  eight_octet (leaf_ty (LI64 (-1))) = true /\ leaf_wire (LI64 (-1)) = true.
Proof. repeat split; vm_compute; reflexivity. Qed.

Example dec8_nonvacuous :
  dec_leaf TI64 8 ([xff; xff; xff; xff; xff; xff; xff; xfe] ++ []) = Some (LI64 (-2), []) /\
  dec_leaf TU64 8 ([x00; x00; x00; x01; x00; x00; x00; x00] ++ []) = Some (LU64 4294967296, []).
Proof. repeat split; vm_compute; reflexivity. Qed.
