(* C10: in the repaired listener what happens to a connection is a function of that
   connection's own events, whatever the others do and however events interleave; the accept
   loop can always accept; the legacy listener is refuted. *)
Require Import DV.Base.Bytes DV.Model.Listener.

Lemma lupd_same f c x : lupd f c x c = x.
Proof. unfold lupd. rewrite Nat.eqb_refl. reflexivity. Qed.
Lemma lupd_other f c x k : k <> c -> lupd f c x k = f k.
Proof. unfold lupd. intros H. destruct (Nat.eqb_spec k c); [contradiction | reflexivity]. Qed.

Lemma lstep_tls s e s' : lstep s e = Some s' -> l_tls s' = l_tls s /\ busy s' = None.
Proof. unfold lstep. destruct (cstep _ _ _); [|discriminate]. intros H. inversion H. auto. Qed.

(* one step: the connection of the event moves by its own machine, every other connection is untouched *)
Lemma lstep_view s e s' c :
  lstep s e = Some s' ->
  if Nat.eqb (ev_cid e) c then cstep (l_tls s) (conns s c) e = Some (conns s' c)
  else conns s' c = conns s c.
Proof.
  unfold lstep. destruct (cstep (l_tls s) (conns s (ev_cid e)) e) as [x|] eqn:E; [|discriminate].
  intros H. inversion H; subst s'. cbn [conns].
  destruct (Nat.eqb_spec (ev_cid e) c) as [<-|Hne].
  - rewrite lupd_same. exact E.
  - apply lupd_other. intros ->. apply Hne. reflexivity.
Qed.

(* non-interference: for every trace the listener can perform, connection c ends exactly where
   its own events alone take it *)
Theorem noninterference : forall es s s' c,
  lrun lstep s es = Some s' -> crun (l_tls s) (conns s c) (proj c es) = Some (conns s' c).
Proof.
  induction es as [|e es IH]; intros s s' c H; cbn [lrun] in H.
  - inversion H. reflexivity.
  - destruct (lstep s e) as [s1|] eqn:E; [|discriminate].
    pose proof (lstep_view s e s1 c E) as Hv. destruct (lstep_tls _ _ _ E) as [Ht _].
    cbn [proj filter]. fold (proj c es).
    destruct (Nat.eqb (ev_cid e) c).
    + cbn [crun]. rewrite Hv. rewrite <- Ht. apply IH. exact H.
    + rewrite <- Hv, <- Ht. apply IH. exact H.
Qed.

(* and conversely the others cannot disable c: an event of c is enabled in the listener exactly
   when it is enabled for c alone *)
Theorem enabled_locally s e :
  (exists s', lstep s e = Some s') <-> (exists x, cstep (l_tls s) (conns s (ev_cid e)) e = Some x).
Proof.
  unfold lstep. destruct (cstep (l_tls s) (conns s (ev_cid e)) e) as [x|]; split; intros [y H]; eauto; discriminate.
Qed.

(* the accept loop is always at accept(): a connection not yet seen can be accepted in every
   reachable state, whatever the other connections are doing *)
Theorem listener_live : forall es tls s c,
  lrun lstep (linit tls) es = Some s -> conns s c = None -> exists s', lstep s (LAccept c) = Some s'.
Proof.
  intros es tls s c _ Hc. unfold lstep. cbn [ev_cid]. rewrite Hc. cbn [cstep]. eauto.
Qed.

(* a well-behaved connection opened at any point gets served: accepted, (handshake,) and every
   octet it sends becomes input of its own task and of nobody else's *)
Theorem good_connection_served : forall es tls s c data,
  lrun lstep (linit tls) es = Some s -> conns s c = None ->
  exists s', lrun lstep s (LAccept c :: (if tls then [LHsDone c] else []) ++ [LData c data]) = Some s'
             /\ conns s' c = Some (MkC PServing data)
             /\ forall k, k <> c -> conns s' k = conns s k.
Proof.
  intros es tls s c data Hr Hc.
  assert (G : forall es0 s0 s1, lrun lstep s0 es0 = Some s1 -> l_tls s1 = l_tls s0).
  { induction es0 as [|e es0 IH]; intros s0 s1 H; cbn [lrun] in H; [inversion H; reflexivity|].
    destruct (lstep s0 e) as [s2|] eqn:E; [|discriminate]. destruct (lstep_tls _ _ _ E) as [E1 _]. rewrite <- E1. apply IH. exact H. }
  assert (Ht : l_tls s = tls) by (rewrite (G _ _ _ Hr); reflexivity).
  destruct tls; cbn [app lrun]; unfold lstep; cbn [ev_cid conns l_tls]; rewrite ?Hc, ?Ht; cbn [cstep ph inb conns l_tls];
    rewrite ?lupd_same; cbn [cstep ph inb conns l_tls]; rewrite ?lupd_same; cbn [cstep ph inb app];
    eexists; (split; [reflexivity|]); cbn [conns]; rewrite lupd_same; (split; [reflexivity|]);
    intros k Hk; rewrite !lupd_other by exact Hk; reflexivity.
Qed.

(* ---------- the legacy listener ---------- *)
(* one peer that connects over TLS and never completes (nor fails) its handshake keeps the
   accept loop away from accept() for ever: no later connection is accepted *)
Lemma legacy_busy_persists : forall es s s' c,
  busy s = Some c -> lrun lstep_legacy s es = Some s' ->
  (forall e, In e es -> ev_cid e <> c) -> busy s' = Some c.
Proof.
  induction es as [|e es IH]; intros s s' c Hb H Hn; cbn [lrun] in H; [inversion H; subst; exact Hb|].
  destruct (lstep_legacy s e) as [s1|] eqn:E; [|discriminate].
  apply (IH s1 s' c); [|exact H | intros e' He'; apply Hn; right; exact He'].
  assert (Hne : ev_cid e <> c) by (apply Hn; left; reflexivity).
  unfold lstep_legacy in E. rewrite Hb in E.
  destruct e as [k|k|k|k bs|k|k]; cbn [ev_cid] in *; try discriminate;
    (destruct (cstep (l_tls s) (conns s k) _) as [x|]; [|discriminate]); inversion E; cbn [busy]; try reflexivity;
    (destruct (Nat.eqb_spec c k) as [->|_]; [exfalso; apply Hne; reflexivity | reflexivity]).
Qed.

Theorem legacy_refuted : forall es s c c',
  lrun lstep_legacy (linit true) [LAccept c] = Some s ->
  (forall e, In e es -> ev_cid e <> c) ->
  forall s', lrun lstep_legacy s es = Some s' -> lstep_legacy s' (LAccept c') = None.
Proof.
  intros es s c c' H0 Hn s' H.
  assert (Hb : busy s = Some c).
  { cbn in H0. inversion H0. reflexivity. }
  pose proof (legacy_busy_persists es s s' c Hb H Hn) as Hb'.
  unfold lstep_legacy. rewrite Hb'. reflexivity.
Qed.

Example legacy_refuted_witness :
  exists s, lrun lstep_legacy (linit true) [LAccept 0; LData 0 [x16]; LData 0 []] = Some s /\ lstep_legacy s (LAccept 1) = None
            /\ exists s2, lrun lstep (linit true) [LAccept 0; LData 0 [x16]; LData 0 []; LAccept 1; LHsDone 1; LData 1 [x01]] = Some s2
                          /\ conns s2 1 = Some (MkC PServing [x01]).
Proof. eexists. split; [reflexivity|]. split; [reflexivity|]. eexists. split; reflexivity. Qed.

(* non-vacuity of the main theorem: three connections, one stalls in its handshake, one sends garbage
   and dies, one panics its handler; the fourth, opened last, is served from its own octets only *)
Example noninterference_nonvacuous :
  let tr := [LAccept 0; LAccept 1; LHsDone 1; LData 1 [xff; xff]; LAccept 2; LEof 1; LHsDone 2; LData 2 [x01]; LPanic 2;
             LAccept 3; LHsDone 3; LData 3 [x01; x00]; LData 0 [x16]; LData 3 [x00; x14]] in
  exists s, lrun lstep (linit true) tr = Some s /\ conns s 3 = Some (MkC PServing [x01; x00; x00; x14])
            /\ crun true None (proj 3 tr) = Some (conns s 3).
Proof. eexists. split; [reflexivity|]. split; reflexivity. Qed.
