(* Unconditional facts about anything the decoder returns (no completeness or known-class
   hypothesis): nesting within the budget, every field in the wire domain, re-encodable;
   the dictionary dispatch (C15); the witness of the known class (C03). *)
Require Import DV.Base.Bytes DV.Base.Utf8 DV.Model.Leaf DV.Spec.Wire DV.Model.Avp DV.Model.Message
  DV.Model.Dict DV.Model.Build
  DV.Proofs.LeafFacts DV.Proofs.AvpFacts DV.Proofs.DecTotal DV.Proofs.DecSound DV.Proofs.DecComplete
  DV.Proofs.BuildFacts.
Local Open Scope N_scope.

(* ---------- nesting depth ---------- *)
Lemma dec_depth d : forall f,
  (forall lim r a r', dec_avp f lim d r = Ok (a, r') -> (depth a <= lim)%nat) /\
  (forall lim len off r l r', dec_members f lim d len off r = Ok (l, r') -> (depth_list l <= lim)%nat).
Proof.
  induction f as [|f [IHa IHm]]; [split; intros; discriminate|]. split.
  - intros lim r a r' H. apply dec_avp_ok_inv in H.
    destruct H as (c & m & p & len & vd & r2 & v & r3 & _ & _ & -> & _ & Hv).
    destruct Hv as [(l & -> & _ & _) | (ms & lim' & -> & _ & -> & Em)].
    + cbn [depth depth_val]. lia.
    + rewrite depth_grp. apply IHm in Em. lia.
  - intros lim len off r l r'. cbn [dec_members].
    destruct (off <? len).
    + destruct (dec_avp f lim d r) as [[a r1]| | |] eqn:Ea; try discriminate.
      destruct (4294967296 <=? off + a_len a + a_pad a); [discriminate|].
      destruct (dec_members f lim d len (off + a_len a + a_pad a) r1) as [[l1 r2]| | |] eqn:Em; try discriminate.
      intros H. inversion H; subst. rewrite depth_list_cons. apply IHa in Ea. apply IHm in Em. lia.
    + destruct (off =? len); [|discriminate]. intros H. inversion H; subst. cbn. lia.
Qed.

Theorem dec_msg_depth lim d bs m : dec_msg lim d bs = Ok m -> (depth_list (m_avps m) <= lim)%nat.
Proof.
  intros H. destruct (dec_msg_inv _ _ _ _ H) as (rest & r' & _ & _ & _ & _ & _ & _ & _ & _ & _ & _ & Em).
  eapply (proj2 (dec_depth d _)). exact Em.
Qed.

(* ---------- everything returned is in the wire domain, hence re-encodable ---------- *)
Lemma dec_wireb d : forall f,
  (forall lim r a r', dec_avp f lim d r = Ok (a, r') -> wireb a = true) /\
  (forall lim len off r l r', dec_members f lim d len off r = Ok (l, r') -> forallb wireb l = true).
Proof.
  induction f as [|f [IHa IHm]]; [split; intros; discriminate|]. split.
  - intros lim r a r' H. apply dec_avp_ok_inv in H.
    destruct H as (c & m & p & len & vd & r2 & v & r3 & Eh & Hge & -> & -> & Hv).
    apply dec_header_sound in Eh. destruct Eh as (fl & _ & _ & Hc & Hl & Hvd).
    cbn [wireb].
    assert (H1 : (c <? 4294967296) = true) by (apply N.ltb_lt; exact Hc).
    assert (H2 : match vd with Some x => x <? 4294967296 | None => true end = true)
      by (destruct vd; [apply N.ltb_lt; exact Hvd | reflexivity]).
    assert (H3 : (len <? 16777216) = true) by (apply N.ltb_lt; exact Hl).
    rewrite H1, H2, H3. cbn [andb].
    destruct Hv as [(l & -> & _ & El) | (ms & lim' & -> & _ & _ & Em)].
    + apply dec_leaf_sound in El. tauto.
    + eapply IHm. exact Em.
  - intros lim len off r l r'. cbn [dec_members].
    destruct (off <? len).
    + destruct (dec_avp f lim d r) as [[a r1]| | |] eqn:Ea; try discriminate.
      destruct (4294967296 <=? off + a_len a + a_pad a); [discriminate|].
      destruct (dec_members f lim d len (off + a_len a + a_pad a) r1) as [[l1 r2]| | |] eqn:Em; try discriminate.
      intros H. inversion H; subst. cbn [forallb]. apply andb_true_iff. split; [eapply IHa; exact Ea | eapply IHm; exact Em].
    + destruct (off =? len); [|discriminate]. intros H. inversion H; subst. reflexivity.
Qed.

Theorem dec_msg_wireb lim d bs m : dec_msg lim d bs = Ok m -> msg_wireb m = true.
Proof.
  intros H. destruct (dec_msg_inv _ _ _ _ H) as (rest & r' & _ & Hv & Hl & Hf & Hc & Ha & Hh & He & _ & _ & Em).
  unfold msg_wireb. repeat (apply andb_true_iff; split); try (apply N.ltb_lt; assumption).
  eapply (proj2 (dec_wireb d _)). exact Em.
Qed.

(* any returned message can be re-encoded: the encoder never traps, and succeeds *)
Theorem dec_msg_reencodes lim d bs m : dec_msg lim d bs = Ok m -> exists bs', enc_msg m = Ok bs'.
Proof.
  intros H. apply dec_msg_wireb in H. apply msg_wireb_enc_ok in H. unfold enc_msg. rewrite H. eauto.
Qed.

Theorem enc_msg_never_traps m : match enc_msg m with Panic | OutOfFuel => False | _ => True end.
Proof. unfold enc_msg. destruct (msg_enc_ok m); exact I. Qed.

(* ---------- dictionary dispatch (C15) ---------- *)
Lemma dec_typed d : forall f,
  (forall lim r a r', dec_avp f lim d r = Ok (a, r') -> typed d a) /\
  (forall lim len off r l r', dec_members f lim d len off r = Ok (l, r') -> typed_list d l).
Proof.
  induction f as [|f [IHa IHm]]; [split; intros; discriminate|]. split.
  - intros lim r a r' H. apply dec_avp_ok_inv in H.
    destruct H as (c & m & p & len & vd & r2 & v & r3 & _ & _ & -> & _ & Hv).
    destruct Hv as [(l & -> & Hd & _) | (ms & lim' & -> & Hd & _ & Em)].
    + cbn [typed val_ty]. auto.
    + cbn [typed val_ty]. split; [exact Hd|]. eapply IHm. exact Em.
  - intros lim len off r l r'. cbn [dec_members].
    destruct (off <? len).
    + destruct (dec_avp f lim d r) as [[a r1]| | |] eqn:Ea; try discriminate.
      destruct (4294967296 <=? off + a_len a + a_pad a); [discriminate|].
      destruct (dec_members f lim d len (off + a_len a + a_pad a) r1) as [[l1 r2]| | |] eqn:Em; try discriminate.
      intros H. inversion H; subst. rewrite typed_list_cons. split; [eapply IHa; exact Ea | eapply IHm; exact Em].
    + destruct (off =? len); [|discriminate]. intros H. inversion H; subst. exact I.
Qed.

Theorem dec_msg_typed lim d bs m : dec_msg lim d bs = Ok m -> typed_list d (m_avps m).
Proof.
  intros H. destruct (dec_msg_inv _ _ _ _ H) as (rest & r' & _ & _ & _ & _ & _ & _ & _ & _ & _ & _ & Em).
  eapply (proj2 (dec_typed d _)). exact Em.
Qed.

(* how one AVP is interpreted is decided by the entry for its exact (code, vendor) pair *)
Theorem dec_avp_dispatch f lim d r c m p len vd r2 :
  dec_header r = Some (c, m, p, len, vd, r2) ->
  match d c vd with
  | None | Some TUnknown => dec_avp (S f) lim d r = Err
  | Some t => forall a r', dec_avp (S f) lim d r = Ok (a, r') ->
                           a_code a = c /\ a_vendor a = vd /\ val_ty (a_val a) = t
  end.
Proof.
  intros Eh. destruct (d c vd) as [t|] eqn:Ed.
  - assert (G : forall a r', dec_avp (S f) lim d r = Ok (a, r') -> a_code a = c /\ a_vendor a = vd /\ val_ty (a_val a) = t).
    { intros a r' H. apply dec_avp_ok_inv in H.
      destruct H as (c0 & m0 & p0 & len0 & vd0 & r20 & v & r3 & Eh' & _ & -> & _ & Hv).
      rewrite Eh in Eh'. inversion Eh'; subst. cbn [a_code a_vendor a_val].
      destruct Hv as [(l & -> & Hd & _) | (ms & lim' & -> & Hd & _)]; cbn [val_ty]; split; auto; split; auto; congruence. }
    destruct t; try exact G.
    cbn [dec_avp]. rewrite Eh. destruct (len <? hdr vd); [reflexivity|]. rewrite Ed. reflexivity.
  - cbn [dec_avp]. rewrite Eh. destruct (len <? hdr vd); [reflexivity|]. rewrite Ed. reflexivity.
Qed.

(* ---------- C03: accepted frames, re-encoding ---------- *)
Theorem accepted_reencodes lim d bs m :
  dec_msg lim d bs = Ok m -> complete bs -> msg_nomm m ->
  wire_msg d (abs_msg m) bs /\
  enc_msg m = Ok (spec_msg (abs_msg m)) /\
  wire_msg d (abs_msg m) (spec_msg (abs_msg m)) /\
  blen (spec_msg (abs_msg m)) = blen bs.
Proof.
  intros H Hc Hn.
  pose proof (decoded_good _ _ _ _ H Hc Hn) as Hg.
  pose proof (dec_msg_wireb _ _ _ _ H) as Hw.
  destruct (dec_msg_sound _ _ _ _ H Hc Hn) as (HW & _ & _).
  destruct (enc_good_is_spec m Hg (msg_wireb_enc_ok m Hw)) as [E L].
  split; [exact HW|]. split; [exact E|]. split.
  - pose proof Hg as [[Hcl Hl] (Hv & Hf & Hcm & Hap & Hh & He & Hr)].
    exists (spec_body (s_avps (abs_msg m))). split; [|split; [|split]].
    + unfold abs_msg. cbn [s_avps]. apply spec_list_is_wire. apply swf_list_of_model; try assumption.
      * unfold msg_wireb in Hw. apply andb_true_iff in Hw. tauto.
      * eapply dec_msg_typed. exact H.
    + unfold hdr_ranges, abs_msg. cbn. repeat split; assumption.
    + unfold abs_msg, spec_body. cbn [s_avps]. destruct (enc_list_is_spec (m_avps m) Hcl Hr) as [E1 L1].
      rewrite <- E1, L1. destruct (dec_msg_inv _ _ _ _ H) as (_ & _ & _ & _ & Hl24 & _). lia.
    + reflexivity.
  - rewrite <- L. destruct (dec_msg_inv _ _ _ _ H) as (rest & r' & Ebs & _ & Hl24 & _).
    subst bs. unfold complete in Hc. unfold be24 at 1 in Hc. cbn [app] in Hc.
    change [b_of_N (m_len m / 256 / 256); b_of_N (m_len m / 256); b_of_N (m_len m)] with (be24 (m_len m)) in Hc.
    rewrite un_be24 in Hc by exact Hl24. symmetry. exact Hc.
Qed.

(* a frame no tree denotes is refused, or what comes back is in the known class *)
Theorem inconsistent_rejected lim d bs :
  complete bs -> (forall sm, ~ wire_msg d sm bs) ->
  match dec_msg lim d bs with
  | Ok m => ~ msg_nomm m
  | Err => True
  | Panic | OutOfFuel => False
  end.
Proof.
  intros Hc Hno. pose proof (dec_msg_total lim d bs) as Ht.
  destruct (dec_msg lim d bs) as [m| | |] eqn:E; try exact Ht; try exact I.
  intros Hn. destruct (dec_msg_sound _ _ _ _ E Hc Hn) as (HW & _). exact (Hno _ HW).
Qed.

(* ---------- the known class: a concrete accepted frame that is not what its octets say ---------- *)
Definition kf1_dict : dict := fun c vd => if (c =? 415) && negb (is_some vd) then Some TU32 else None.
Definition kf1_frame : list byte :=
  [x01;x00;x00;x24;x80;x00;x01;x10;x00;x00;x00;x04;x00;x00;x00;x01;x00;x00;x00;x02;
   x00;x00;x01;x9f;x40;x00;x00;x10;x00;x00;x00;x00;x00;x00;x03;xe8].

Theorem known_class_witness :
  exists m bs', dec_msg 16 kf1_dict kf1_frame = Ok m /\ complete kf1_frame /\ ~ msg_nomm m /\
                enc_msg m = Ok bs' /\ blen bs' <> blen kf1_frame.
Proof.
  eexists. eexists. split; [vm_compute; reflexivity|]. split; [vm_compute; reflexivity|].
  split; [vm_compute; intros [H _]; discriminate|]. split; [vm_compute; reflexivity|]. vm_compute. discriminate.
Qed.

(* ---------- every recognised type can be used (C15) ---------- *)
Theorem known_type_usable lim d c vd mf pf l cmd app fl hbh e2e bs :
  d c vd = Some (leaf_ty l) -> leaf_wire l = true -> c < 4294967296 -> vd_ok vd ->
  known_cmd cmd = true -> known_app app = true ->
  cmd < 16777216 -> app < 4294967296 -> fl < 256 -> hbh < 4294967296 -> e2e < 4294967296 ->
  let m := msg_add (msg_new cmd app fl hbh e2e) (mk_avp c vd mf pf (VLeaf l)) in
  msg_wireb m = true -> enc_msg m = Ok bs -> dec_msg lim d bs = Ok m.
Proof.
  intros Hd Hw Hc Hvd Hkc Hka H1 H2 H3 H4 H5 m Hmw Henc.
  apply roundtrip; auto.
  - apply msg_add_good; [apply msg_new_good; assumption | apply mk_avp_consistent; exact I |].
    apply mk_avp_rep; auto. cbn [rep_val]. apply leaf_wire_rep. exact Hw.
  - cbn. auto.
  - cbn. lia.
Qed.

(* an entry that exists only under another vendor (or only without one) does not apply *)
Theorem other_vendor_rejected f lim d r c m p len vd r2 :
  dec_header r = Some (c, m, p, len, vd, r2) -> d c vd = None -> dec_avp (S f) lim d r = Err.
Proof. intros Eh Ed. pose proof (dec_avp_dispatch f lim d r c m p len vd r2 Eh) as H. rewrite Ed in H. exact H. Qed.
