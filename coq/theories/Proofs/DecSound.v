(* Decoder soundness (the C03 core): whatever the cursor-based decoder accepts from a cursor
   that really holds what the AVP declares is a wire image of the tree it returns, the
   returned tree has the natural stored lengths, and its nesting is within the budget -
   provided no fixed-size value carries a mismatching declared length (the known class). *)
Require Import DV.Base.Bytes DV.Base.Utf8 DV.Model.Leaf DV.Spec.Wire DV.Model.Avp DV.Model.Message
  DV.Proofs.LeafFacts DV.Proofs.AvpFacts DV.Proofs.DecTotal.
Local Open Scope N_scope.

Lemma fin_wire d c vd m p len fl data r3 sv :
  flags_ok fl (is_some vd) m p -> c < 4294967296 -> len < 16777216 -> vd_ok vd -> hdr vd <= len ->
  blen data = len - hdr vd -> wire_val d sv data -> d c vd = Some (sty_of sv) ->
  pad4 (len - hdr vd) <= blen r3 ->
  exists bs, be32 c ++ [fl] ++ be24 len ++ optbe32 vd ++ data ++ r3
             = bs ++ skipn (N.to_nat (pad4 (len - hdr vd))) r3
             /\ wire_avp d (SAvp c vd m p sv) bs /\ blen bs = len + pad4 (len - hdr vd).
Proof.
  intros Hfl Hc Hl Hvd Hge Hdl Hw Hd Hpad.
  destruct (skip_split (pad4 (len - hdr vd)) r3 Hpad) as (padb & E3 & Hpl).
  exists (be32 c ++ [fl] ++ be24 len ++ optbe32 vd ++ data ++ padb). split; [|split].
  - rewrite E3 at 1. repeat rewrite <- app_assoc. reflexivity.
  - replace len with (hdr vd + blen data) by lia. apply W; auto; try lia.
    rewrite Hpl. f_equal. lia.
  - rewrite !blen_app, blen_be32, blen_be24, Hpl. change (blen [fl]) with 1.
    pose proof (blen_optbe32 vd). lia.
Qed.

Lemma members_off_le d : forall f lim len off r l r',
  dec_members f lim d len off r = Ok (l, r') -> off <= len.
Proof.
  intros [|f] lim len off r l r' H; [discriminate|].
  cbn [dec_members] in H. destruct (N.ltb_spec off len); [lia|].
  destruct (N.eqb_spec off len); [lia|discriminate].
Qed.

Definition Pavp d f := forall lim r a r', dec_avp f lim d r = Ok (a, r') ->
   a_len a + a_pad a <= blen r -> nomm a ->
   exists bs, r = bs ++ r' /\ wire_avp d (abs a) bs /\ blen bs = a_len a + a_pad a
              /\ consistent a /\ (depth a <= lim)%nat.
Definition Pmem d f := forall lim len off r l r', dec_members f lim d len off r = Ok (l, r') ->
   len - off <= blen r -> nomm_list l ->
   exists body, r = body ++ r' /\ wire_avps d (map abs l) body /\ off + blen body = len
                /\ consistent_list l /\ off + members_len l = len /\ (depth_list l <= lim)%nat.

Lemma dec_sound d : forall f, Pavp d f /\ Pmem d f.
Proof.
  induction f as [|f [IHa IHm]]; [split; intros ? *; discriminate|]. split.
  - intros lim r a r' H Hc Hn.
    apply dec_avp_ok_inv in H.
    destruct H as (c & m & p & len & vd & r2 & v & r3 & Eh & Hge & -> & -> & Hv).
    pose proof (dec_header_len _ _ _ _ _ _ _ Eh) as Hrl.
    cbn [a_len a_pad] in Hc |- *. rewrite Hrl in Hc. clear Hrl.
    apply dec_header_sound in Eh. destruct Eh as (fl & -> & Hfl & Hcl & Hll & Hvd).
    destruct Hv as [(l & -> & Hd & El) | (ms & lim' & -> & Hd & -> & Em)].
    + (* leaf *)
      apply dec_leaf_sound in El. destruct El as (-> & _ & Hw & Hsz).
      assert (Hdl : blen (enc_leaf l) = len - hdr vd).
      { unfold size_agrees in Hsz. cbn [nomm] in Hn. destruct (fixed_size (leaf_ty l)); lia. }
      destruct (fin_wire d c vd m p len fl (enc_leaf l) r3 (SLeaf l)) as (bs & E & W1 & L1);
        [exact Hfl | exact Hcl | exact Hll | exact Hvd | exact Hge | exact Hdl | apply WLeaf; exact Hw | exact Hd
         | rewrite blen_app in Hc; lia |].
      exists bs. cbn [abs abs_val]. repeat split; auto.
      * cbn [val_len]. rewrite (leaf_len_enc l (leaf_wire_rep l Hw)). lia.
      * cbn [val_len]. rewrite (leaf_len_enc l (leaf_wire_rep l Hw)). f_equal. lia.
      * cbn. lia.
    + (* grouped *)
      cbn [nomm] in Hn. change ((fix all (l : list avp) : Prop := match l with [] => True | x :: xs => nomm x /\ all xs end) ms) with (nomm_list ms) in Hn.
      destruct (IHm _ _ _ _ _ _ Em) as (body & -> & HF & Hsum & Hcl' & Hml & Hdep); [lia | exact Hn |].
      destruct (fin_wire d c vd m p len fl body r3 (SGrp (map abs ms))) as (bs & E & W1 & L1);
        [exact Hfl | exact Hcl | exact Hll | exact Hvd | exact Hge | lia | apply WGrp; exact HF | exact Hd
         | rewrite blen_app in Hc; lia |].
      exists bs. cbn [abs abs_val]. repeat split; auto.
      * cbn [val_len]. lia.
      * cbn [val_len]. f_equal. lia.
      * rewrite depth_grp. lia.
  - intros lim len off r l r' H Hc Hn. cbn [dec_members] in H.
    destruct (N.ltb_spec off len) as [Hlt|Hge].
    + destruct (dec_avp f lim d r) as [[a r1]| | |] eqn:Ea; try discriminate.
      destruct (4294967296 <=? off + a_len a + a_pad a); [discriminate|].
      destruct (dec_members f lim d len (off + a_len a + a_pad a) r1) as [[l1 r2]| | |] eqn:Em; try discriminate.
      inversion H; subst l r'. clear H. rewrite nomm_list_cons in Hn. destruct Hn as [Hna Hnl].
      pose proof (members_off_le _ _ _ _ _ _ _ _ Em) as Hle.
      destruct (IHa _ _ _ _ Ea) as (bs & -> & Hw & Hbl & Hca & Hda); [lia | exact Hna |].
      destruct (IHm _ _ _ _ _ _ Em) as (body & -> & HF & Hsum & Hcl & Hml & Hdl); [rewrite blen_app in Hc; lia | exact Hnl |].
      exists (bs ++ body). cbn [map]. rewrite consistent_list_cons, members_len_cons, depth_list_cons.
      repeat split; auto.
      * rewrite app_assoc. reflexivity.
      * constructor; assumption.
      * rewrite blen_app. lia.
      * lia.
      * lia.
    + destruct (N.eqb_spec off len); [|discriminate]. inversion H; subst. exists [].
      cbn. repeat split; auto; try constructor; try lia.
Qed.

(* ---------- message level ---------- *)
Lemma dec_msg_inv lim d bs m :
  dec_msg lim d bs = Ok m ->
  exists rest r',
    bs = [b_of_N (m_ver m)] ++ be24 (m_len m) ++ [b_of_N (m_flags m)] ++ be24 (m_cmd m)
           ++ be32 (m_app m) ++ be32 (m_hbh m) ++ be32 (m_e2e m) ++ rest
    /\ m_ver m < 256 /\ m_len m < 16777216 /\ m_flags m < 256 /\ m_cmd m < 16777216
    /\ m_app m < 4294967296 /\ m_hbh m < 4294967296 /\ m_e2e m < 4294967296
    /\ known_cmd (m_cmd m) = true /\ known_app (m_app m) = true
    /\ dec_members (S (S (length rest))) lim d (m_len m) 20 rest = Ok (m_avps m, r').
Proof.
  unfold dec_msg.
  destruct bs as [|v [|l0 [|l1 [|l2 [|fl [|c0 [|c1 [|c2 [|a0 [|a1 [|a2 [|a3 [|h0 [|h1 [|h2 [|h3 [|e0 [|e1 [|e2 [|e3 rest]]]]]]]]]]]]]]]]]]]];
    try discriminate.
  cbv zeta. destruct (known_cmd (un_be [c0; c1; c2])) eqn:Ec; [|discriminate].
  destruct (known_app (un_be [a0; a1; a2; a3])) eqn:Eap; [|discriminate]. cbn [andb].
  destruct (dec_members (S (S (length rest))) lim d (un_be [l0; l1; l2]) 20 rest) as [[avps r']| | |] eqn:Em; try discriminate.
  intros H. inversion H; subst m. clear H. cbn [m_ver m_len m_flags m_cmd m_app m_hbh m_e2e m_avps].
  exists rest, r'. rewrite !b_of_N_to_N, !be24_un, !be32_un. cbn [app].
  repeat split; auto using byte_lt, un_be3_lt, un_be4_lt.
Qed.

Lemma complete_blen bs l0 l1 l2 v rest :
  bs = v :: l0 :: l1 :: l2 :: rest -> complete bs -> blen bs = un_be [l0; l1; l2].
Proof. intros -> H. exact H. Qed.

Definition msg_nomm (m : msg) : Prop := nomm_list (m_avps m).
Definition msg_depth (m : msg) : nat := depth_list (m_avps m).

Theorem dec_msg_sound lim d bs m :
  dec_msg lim d bs = Ok m -> complete bs -> msg_nomm m ->
  wire_msg d (abs_msg m) bs /\ msg_consistent m /\ (msg_depth m <= lim)%nat.
Proof.
  intros H Hcomp Hn.
  destruct (dec_msg_inv _ _ _ _ H) as (rest & r' & E & Hv & Hl & Hf & Hc & Ha & Hh & He & _ & _ & Em).
  assert (Hbl : blen bs = m_len m).
  { subst bs. unfold be24 at 1 in Hcomp. cbn [app complete] in Hcomp.
    change [b_of_N (m_len m / 256 / 256); b_of_N (m_len m / 256); b_of_N (m_len m)] with (be24 (m_len m)) in Hcomp.
    rewrite un_be24 in Hcomp by exact Hl. rewrite <- Hcomp. unfold be24. reflexivity. }
  assert (Hrest : blen rest + 20 = m_len m).
  { rewrite <- Hbl, E. rewrite !blen_app, !blen_be24, !blen_be32. change (blen [_]) with 1. lia. }
  destruct (proj2 (dec_sound d _) _ _ _ _ _ _ Em) as (body & Er & HW & Hsum & Hcl & Hml & Hdl); [lia | exact Hn |].
  assert (r' = []).
  { assert (blen r' = 0) by (rewrite Er, blen_app in Hrest; lia). destruct r'; [reflexivity | unfold blen in *; cbn in *; lia]. }
  subst r'. rewrite app_nil_r in Er. subst rest.
  split; [|split].
  - exists body. unfold abs_msg. cbn [s_avps]. split; [exact HW|]. split; [repeat split; assumption|].
    split; [lia|]. rewrite E. unfold spec_hdr. cbn [s_ver s_flags s_cmd s_app s_hbh s_e2e].
    replace (20 + blen body) with (m_len m) by lia. repeat rewrite <- app_assoc. reflexivity.
  - split; [exact Hcl | lia].
  - exact Hdl.
Qed.
