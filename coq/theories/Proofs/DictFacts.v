(* Facts about the dictionary model (Model/Dict.v): for every operation history the AVP map
   answers with the most recently supplied definition for exactly that (code, vendor) key.
   Also: the name maps, the 'must' parser, the data-type name table (dictionary side of C15). *)
From Coq Require Import Sorted.
Require Import DV.Base.Bytes DV.Model.Leaf DV.Spec.Wire DV.Model.Dict.
Local Open Scope N_scope.

(* ------------------------------------------------------------------ *)
(* equality tests are equality                                          *)
(* ------------------------------------------------------------------ *)
Lemma list_beq_eq a b : list_beq a b = true <-> a = b.
Proof.
  revert b. induction a as [|x a IH]; intros [|y b]; cbn [list_beq]; split; intros H;
    try discriminate; try reflexivity.
  - apply andb_true_iff in H. destruct H as [H1 H2]. apply byte_dec_bl in H1.
    apply IH in H2. subst. reflexivity.
  - inversion H; subst. apply andb_true_iff. split; [apply byte_dec_lb; reflexivity|].
    apply IH. reflexivity.
Qed.

Lemma list_beq_refl a : list_beq a a = true.
Proof. apply list_beq_eq. reflexivity. Qed.

Lemma list_beq_false a b : list_beq a b = false <-> a <> b.
Proof.
  split.
  - intros H E. apply list_beq_eq in E. rewrite E in H. discriminate.
  - intros H. destruct (list_beq a b) eqn:E; [|reflexivity]. apply list_beq_eq in E. contradiction.
Qed.

Lemma opt_n_eqb_eq a b : opt_n_eqb a b = true <-> a = b.
Proof.
  destruct a as [x|], b as [y|]; cbn [opt_n_eqb]; split; intros H; try discriminate; try reflexivity.
  - f_equal. lia.
  - inversion H; subst. lia.
Qed.

Lemma key_eqb_eq a b : key_eqb a b = true <-> a = b.
Proof.
  destruct a as [c1 v1], b as [c2 v2]. unfold key_eqb. cbn [fst snd]. split; intros H.
  - apply andb_true_iff in H. destruct H as [H1 H2]. apply opt_n_eqb_eq in H2.
    assert (c1 = c2) by lia. subst. reflexivity.
  - inversion H; subst. apply andb_true_iff. split; [lia|]. apply opt_n_eqb_eq. reflexivity.
Qed.

Lemma key_eqb_refl a : key_eqb a a = true.
Proof. apply key_eqb_eq. reflexivity. Qed.

Lemma key_eqb_sym a b : key_eqb a b = key_eqb b a.
Proof.
  destruct (key_eqb a b) eqn:E1, (key_eqb b a) eqn:E2; try reflexivity.
  - apply key_eqb_eq in E1. subst. rewrite key_eqb_refl in E2. discriminate.
  - apply key_eqb_eq in E2. subst. rewrite key_eqb_refl in E1. discriminate.
Qed.

Lemma key_eqb_trans a b c : key_eqb a b = true -> key_eqb b c = true -> key_eqb a c = true.
Proof. intros H1 H2. apply key_eqb_eq in H1, H2. subst. apply key_eqb_refl. Qed.

Lemma key_eqb_false a b : key_eqb a b = false <-> a <> b.
Proof.
  split.
  - intros H E. subst. rewrite key_eqb_refl in H. discriminate.
  - intros H. destruct (key_eqb a b) eqn:E; [|reflexivity]. apply key_eqb_eq in E. contradiction.
Qed.

Lemma key_dec (a b : key) : {a = b} + {a <> b}.
Proof.
  destruct (key_eqb a b) eqn:E; [left; apply key_eqb_eq, E | right; apply key_eqb_false, E].
Qed.

(* ------------------------------------------------------------------ *)
(* key_ltb is the derived Ord of AvpKey: a strict total order           *)
(* ------------------------------------------------------------------ *)
Lemma key_ltb_irrefl a : key_ltb a a = false.
Proof. destruct a as [c [v|]]; unfold key_ltb; lia. Qed.

Lemma key_ltb_trans a b c : key_ltb a b = true -> key_ltb b c = true -> key_ltb a c = true.
Proof.
  destruct a as [c1 [v1|]], b as [c2 [v2|]], c as [c3 [v3|]]; unfold key_ltb; lia.
Qed.

Lemma key_trichotomy a b : key_ltb a b = true \/ a = b \/ key_ltb b a = true.
Proof.
  destruct a as [c1 [v1|]], b as [c2 [v2|]]; unfold key_ltb.
  - destruct (N.lt_total c1 c2) as [H|[H|H]]; [left; lia| |right; right; lia].
    destruct (N.lt_total v1 v2) as [G|[G|G]]; [left; lia| |right; right; lia].
    right; left. subst. reflexivity.
  - right; right. reflexivity.
  - left. reflexivity.
  - destruct (N.lt_total c1 c2) as [H|[H|H]]; [left; lia| |right; right; lia].
    right; left. subst. reflexivity.
Qed.

Lemma key_ltb_asym a b : key_ltb a b = true -> key_ltb b a = false.
Proof.
  intros H. destruct (key_ltb b a) eqn:E; [|reflexivity].
  pose proof (key_ltb_trans _ _ _ H E) as T. rewrite key_ltb_irrefl in T. discriminate.
Qed.

Lemma key_ltb_neq a b : key_ltb a b = true -> key_eqb a b = false.
Proof.
  intros H. apply key_eqb_false. intros E. subst. rewrite key_ltb_irrefl in H. discriminate.
Qed.

(* every Code(_) sorts before every CodeAndVendor(_,_), whatever the codes *)
Lemma key_ltb_none_some c1 c2 v : key_ltb (c1, None) (c2, Some v) = true.
Proof. reflexivity. Qed.
Lemma key_ltb_some_none c1 c2 v : key_ltb (c1, Some v) (c2, None) = false.
Proof. reflexivity. Qed.

(* ------------------------------------------------------------------ *)
(* the list kept by ins is strictly sorted                              *)
(* ------------------------------------------------------------------ *)
Fixpoint sorted (l : list adef) : Prop :=
  match l with
  | [] => True
  | x :: xs => (forall y, In y xs -> key_ltb (key_of x) (key_of y) = true) /\ sorted xs
  end.

Lemma sorted_StronglySorted l :
  sorted l <-> StronglySorted (fun a b => key_ltb (key_of a) (key_of b) = true) l.
Proof.
  induction l as [|x xs IH]; cbn [sorted]; split; intros H.
  - constructor.
  - exact I.
  - destruct H as [H1 H2]. constructor; [apply IH, H2|]. apply Forall_forall. exact H1.
  - inversion H as [|? ? H1 H2]; subst. split; [|apply IH, H1].
    intros y Hy. rewrite Forall_forall in H2. apply H2, Hy.
Qed.

Lemma sorted_NoDup_keys l : sorted l -> NoDup (map key_of l).
Proof.
  induction l as [|x xs IH]; cbn [sorted map]; intros H; [constructor|].
  destruct H as [H1 H2]. constructor; [|apply IH, H2].
  intros Hin. apply in_map_iff in Hin. destruct Hin as [y [Ey Hy]].
  apply H1 in Hy. rewrite Ey, key_ltb_irrefl in Hy. discriminate.
Qed.

Lemma In_ins y df l : In y (ins df l) -> y = df \/ In y l.
Proof.
  induction l as [|x xs IH]; cbn [ins].
  - intros [<-|[]]. left; reflexivity.
  - destruct (key_eqb (key_of df) (key_of x)).
    + intros [<-|H]; [left; reflexivity|right; right; exact H].
    + destruct (key_ltb (key_of df) (key_of x)).
      * intros [<-|H]; [left; reflexivity|right; exact H].
      * intros [<-|H]; [right; left; reflexivity|]. apply IH in H. destruct H as [H|H]; [left; exact H|right; right; exact H].
Qed.

Lemma ins_sorted df l : sorted l -> sorted (ins df l).
Proof.
  induction l as [|x xs IH]; cbn [ins sorted]; intros H.
  - split; [intros y []|exact I].
  - destruct H as [Hx Hs]. destruct (key_eqb (key_of df) (key_of x)) eqn:E1.
    + apply key_eqb_eq in E1. cbn [sorted]. rewrite E1. split; assumption.
    + destruct (key_ltb (key_of df) (key_of x)) eqn:E2; cbn [sorted].
      * split; [|split; assumption]. intros y [<-|Hy]; [exact E2|].
        eapply key_ltb_trans; [exact E2|apply Hx, Hy].
      * split; [|apply IH, Hs]. intros y Hy. apply In_ins in Hy.
        destruct Hy as [->|Hy]; [|apply Hx, Hy].
        destruct (key_trichotomy (key_of x) (key_of df)) as [T|[T|T]]; [exact T| |].
        -- rewrite T, key_eqb_refl in E1. discriminate.
        -- rewrite T in E2. discriminate.
Qed.

(* BTreeMap::insert then get: replaces exactly the entry with that key *)
Lemma lookup_ins df l c vd :
  lookup (ins df l) c vd = if key_eqb (c, vd) (key_of df) then Some df else lookup l c vd.
Proof.
  unfold lookup. induction l as [|x xs IH]; cbn [ins find].
  - reflexivity.
  - destruct (key_eqb (key_of df) (key_of x)) eqn:E1.
    + apply key_eqb_eq in E1. cbn [find]. rewrite <- E1.
      destruct (key_eqb (c, vd) (key_of df)); reflexivity.
    + destruct (key_ltb (key_of df) (key_of x)) eqn:E2.
      * cbn [find]. reflexivity.
      * cbn [find]. rewrite IH. destruct (key_eqb (c, vd) (key_of x)) eqn:E3; [|reflexivity].
        destruct (key_eqb (c, vd) (key_of df)) eqn:E4; [|reflexivity].
        apply key_eqb_eq in E3, E4. rewrite <- E3, <- E4, key_eqb_refl in E1. discriminate.
Qed.

Lemma lookup_some l c vd x : lookup l c vd = Some x -> In x l /\ key_of x = (c, vd).
Proof.
  unfold lookup. intros H. apply find_some in H. destruct H as [H1 H2].
  apply key_eqb_eq in H2. split; [exact H1|symmetry; exact H2].
Qed.

Lemma lookup_none l c vd : lookup l c vd = None -> forall x, In x l -> key_of x <> (c, vd).
Proof.
  unfold lookup. intros H x Hx E. pose proof (find_none _ _ H x Hx) as F. cbn beta in F.
  rewrite E, key_eqb_refl in F. discriminate.
Qed.

(* keys are unique in a sorted list: membership = being the answer for one's own key *)
Lemma sorted_lookup_in l x : sorted l -> In x l -> lookup l (d_code x) (d_vendor x) = Some x.
Proof.
  unfold lookup. induction l as [|a l IH]; cbn [sorted In find]; intros Hs Hin; [contradiction|].
  destruct Hs as [Ha Hs]. destruct Hin as [->|Hin].
  - change (d_code x, d_vendor x) with (key_of x). rewrite key_eqb_refl. reflexivity.
  - change (d_code x, d_vendor x) with (key_of x).
    pose proof (Ha x Hin) as L. apply key_ltb_neq in L. rewrite key_eqb_sym in L. rewrite L.
    apply IH; assumption.
Qed.

(* find on a sorted list returns the match with the least key (iteration order of values()) *)
Lemma sorted_find_least f l x :
  sorted l -> find f l = Some x ->
  forall y, In y l -> f y = true -> y = x \/ key_ltb (key_of x) (key_of y) = true.
Proof.
  induction l as [|a l IH]; cbn [sorted find In]; intros Hs Hf y Hy Fy; [contradiction|].
  destruct Hs as [Ha Hs]. destruct (f a) eqn:Fa.
  - inversion Hf; subst. destruct Hy as [->|Hy]; [left; reflexivity|right; apply Ha, Hy].
  - destruct Hy as [->|Hy]; [rewrite Fa in Fy; discriminate|]. apply IH; assumption.
Qed.

(* ------------------------------------------------------------------ *)
(* last_def: meaning                                                    *)
(* ------------------------------------------------------------------ *)
Lemma last_def_app k l1 l2 :
  last_def k (l1 ++ l2) = match last_def k l2 with Some y => Some y | None => last_def k l1 end.
Proof.
  induction l1 as [|x l1 IH]; cbn [app last_def].
  - destruct (last_def k l2); reflexivity.
  - rewrite IH. destruct (last_def k l2); reflexivity.
Qed.

Lemma last_def_none_iff k l : last_def k l = None <-> (forall x, In x l -> key_of x <> k).
Proof.
  induction l as [|a l IH]; cbn [last_def In].
  - split; [intros _ x []|reflexivity].
  - destruct (last_def k l) as [y|] eqn:E.
    + split; [discriminate|]. intros H. exfalso.
      assert (Some y = None) as F by (apply IH; intros x Hx; apply H; right; exact Hx). discriminate.
    + destruct (key_eqb k (key_of a)) eqn:Ea.
      * split; [discriminate|]. intros H. exfalso. apply key_eqb_eq in Ea.
        apply (H a); [left; reflexivity|symmetry; exact Ea].
      * split; [|reflexivity]. intros _ x [<-|Hx].
        -- apply key_eqb_false in Ea. intros F. apply Ea. symmetry. exact F.
        -- destruct IH as [IH1 _]. apply IH1; [reflexivity|exact Hx].
Qed.

Lemma last_def_some_iff k l x :
  last_def k l = Some x <->
  exists l1 l2, l = l1 ++ x :: l2 /\ key_of x = k /\ forall y, In y l2 -> key_of y <> k.
Proof.
  split.
  - revert x. induction l as [|a l IH]; cbn [last_def]; intros x H; [discriminate|].
    destruct (last_def k l) as [y|] eqn:E.
    + inversion H; subst. destruct (IH x eq_refl) as [l1 [l2 [E1 [E2 E3]]]].
      exists (a :: l1), l2. rewrite E1. split; [reflexivity|split; assumption].
    + destruct (key_eqb k (key_of a)) eqn:Ea; [|discriminate]. inversion H; subst.
      apply key_eqb_eq in Ea. exists [], l. split; [reflexivity|]. split; [symmetry; exact Ea|].
      apply last_def_none_iff. exact E.
  - intros [l1 [l2 [E1 [E2 E3]]]]. subst l. rewrite last_def_app. cbn [last_def].
    apply last_def_none_iff in E3. rewrite E3. subst k. rewrite key_eqb_refl. reflexivity.
Qed.

Lemma last_def_key k l x : last_def k l = Some x -> key_of x = k /\ In x l.
Proof.
  intros H. apply last_def_some_iff in H. destruct H as [l1 [l2 [E1 [E2 _]]]].
  split; [exact E2|]. subst l. apply in_or_app. right. left. reflexivity.
Qed.

(* x is the current definition for its own key *)
Definition live (l : list adef) (x : adef) : Prop := last_def (key_of x) l = Some x.

Lemma live_iff l x :
  live l x <-> exists l1 l2, l = l1 ++ x :: l2 /\ forall y, In y l2 -> key_of y <> key_of x.
Proof.
  unfold live. rewrite last_def_some_iff. split.
  - intros [l1 [l2 [E1 [_ E3]]]]. exists l1, l2. split; assumption.
  - intros [l1 [l2 [E1 E3]]]. exists l1, l2. split; [exact E1|split; [reflexivity|exact E3]].
Qed.

(* ------------------------------------------------------------------ *)
(* inserting a whole sequence                                           *)
(* ------------------------------------------------------------------ *)
Definition insall (L : list adef) (l0 : list adef) : list adef :=
  fold_left (fun l x => ins x l) L l0.

Lemma insall_sorted L l0 : sorted l0 -> sorted (insall L l0).
Proof.
  unfold insall. revert l0. induction L as [|x L IH]; cbn [fold_left]; intros l0 H; [exact H|].
  apply IH. apply ins_sorted. exact H.
Qed.

Lemma lookup_insall L l0 c vd :
  lookup (insall L l0) c vd =
  match last_def (c, vd) L with Some y => Some y | None => lookup l0 c vd end.
Proof.
  unfold insall. revert l0. induction L as [|x L IH]; cbn [fold_left last_def]; intros l0; [reflexivity|].
  rewrite IH, lookup_ins. destruct (last_def (c, vd) L); [reflexivity|].
  destruct (key_eqb (c, vd) (key_of x)); reflexivity.
Qed.

(* ------------------------------------------------------------------ *)
(* projections of the state after a run                                 *)
(* ------------------------------------------------------------------ *)
Definition cmd_step (st : dstate) (kv : list byte * N) : dstate :=
  MkDict (ds_avps st) (ds_apps st) (nm_ins (fst kv) (snd kv) (ds_cmds st)).
Definition avp_step (st : dstate) (x : xdef) : dstate := add_avp st (def_of_x x).

Lemma fold_avp_step xs s :
  ds_avps (fold_left avp_step xs s) = insall (map def_of_x xs) (ds_avps s)
  /\ ds_apps (fold_left avp_step xs s) = ds_apps s
  /\ ds_cmds (fold_left avp_step xs s) = ds_cmds s.
Proof.
  unfold insall. revert s. induction xs as [|x xs IH]; cbn [fold_left map]; intros s.
  - repeat split.
  - destruct (IH (avp_step s x)) as [H1 [H2 H3]]. rewrite H1, H2, H3. repeat split.
Qed.

Lemma fold_cmd_step kvs s :
  ds_avps (fold_left cmd_step kvs s) = ds_avps s
  /\ ds_apps (fold_left cmd_step kvs s) = ds_apps s
  /\ ds_cmds (fold_left cmd_step kvs s) = rev kvs ++ ds_cmds s.
Proof.
  revert s. induction kvs as [|kv kvs IH]; cbn [fold_left rev]; intros s.
  - repeat split.
  - destruct (IH (cmd_step s kv)) as [H1 [H2 H3]]. rewrite H1, H2, H3.
    cbn [cmd_step ds_avps ds_apps ds_cmds]. unfold nm_ins. rewrite <- app_assoc.
    destruct kv as [k v]. repeat split.
Qed.

Lemma load_app_proj s a :
  ds_avps (load_app s a) = insall (defs_of_app a) (ds_avps s)
  /\ ds_apps (load_app s a) = (xa_name a, xa_id a) :: ds_apps s
  /\ ds_cmds (load_app s a) = rev (xa_cmds a) ++ ds_cmds s.
Proof.
  unfold load_app, defs_of_app. fold cmd_step. fold avp_step.
  destruct (fold_avp_step (xa_avps a)
    (fold_left cmd_step (xa_cmds a)
       (MkDict (ds_avps s) (nm_ins (xa_name a) (xa_id a) (ds_apps s)) (ds_cmds s)))) as [H1 [H2 H3]].
  destruct (fold_cmd_step (xa_cmds a)
       (MkDict (ds_avps s) (nm_ins (xa_name a) (xa_id a) (ds_apps s)) (ds_cmds s))) as [G1 [G2 G3]].
  rewrite H1, H2, H3, G1, G2, G3. repeat split.
Qed.

Lemma insall_app L1 L2 l0 : insall (L1 ++ L2) l0 = insall L2 (insall L1 l0).
Proof. unfold insall. apply fold_left_app. Qed.

Lemma fold_load_app apps s :
  ds_avps (fold_left load_app apps s) = insall (flat_map defs_of_app apps) (ds_avps s)
  /\ ds_apps (fold_left load_app apps s) = rev (map (fun a => (xa_name a, xa_id a)) apps) ++ ds_apps s
  /\ ds_cmds (fold_left load_app apps s) = rev (flat_map xa_cmds apps) ++ ds_cmds s.
Proof.
  revert s. induction apps as [|a apps IH]; cbn [fold_left flat_map map rev]; intros s.
  - repeat split.
  - destruct (IH (load_app s a)) as [H1 [H2 H3]]. destruct (load_app_proj s a) as [G1 [G2 G3]].
    rewrite H1, H2, H3, G1, G2, G3. rewrite insall_app, rev_app_distr, <- !app_assoc. repeat split.
Qed.

Lemma dstep_proj s o :
  ds_avps (dstep s o) = insall (defs_of_op o) (ds_avps s)
  /\ ds_apps (dstep s o) = rev (apps_of_op o) ++ ds_apps s
  /\ ds_cmds (dstep s o) = rev (cmds_of_op o) ++ ds_cmds s.
Proof.
  destruct o as [apps|df]; cbn [dstep defs_of_op apps_of_op cmds_of_op].
  - apply fold_load_app.
  - repeat split.
Qed.

Lemma fold_dstep ops s :
  ds_avps (fold_left dstep ops s) = insall (defs_of ops) (ds_avps s)
  /\ ds_apps (fold_left dstep ops s) = rev (apps_of ops) ++ ds_apps s
  /\ ds_cmds (fold_left dstep ops s) = rev (cmds_of ops) ++ ds_cmds s.
Proof.
  unfold defs_of, apps_of, cmds_of.
  revert s. induction ops as [|o ops IH]; cbn [fold_left flat_map rev]; intros s.
  - repeat split.
  - destruct (IH (dstep s o)) as [H1 [H2 H3]]. destruct (dstep_proj s o) as [G1 [G2 G3]].
    rewrite H1, H2, H3, G1, G2, G3. rewrite insall_app, !rev_app_distr, <- !app_assoc. repeat split.
Qed.

Lemma drun_avps ops : ds_avps (drun ops) = insall (defs_of ops) [].
Proof. unfold drun. destruct (fold_dstep ops dict_empty) as [H _]. exact H. Qed.
Lemma drun_apps ops : ds_apps (drun ops) = rev (apps_of ops).
Proof. unfold drun. destruct (fold_dstep ops dict_empty) as [_ [H _]]. rewrite H. apply app_nil_r. Qed.
Lemma drun_cmds ops : ds_cmds (drun ops) = rev (cmds_of ops).
Proof. unfold drun. destruct (fold_dstep ops dict_empty) as [_ [_ H]]. rewrite H. apply app_nil_r. Qed.

(* histories compose: running ops1 then ops2 *)
Lemma defs_of_app_ops ops1 ops2 : defs_of (ops1 ++ ops2) = defs_of ops1 ++ defs_of ops2.
Proof. unfold defs_of. apply flat_map_app. Qed.

(* ------------------------------------------------------------------ *)
(* C14: the latest definition for exactly that key wins                 *)
(* ------------------------------------------------------------------ *)
Lemma drun_sorted ops : sorted (ds_avps (drun ops)).
Proof. rewrite drun_avps. apply insall_sorted. exact I. Qed.

Lemma latest_wins ops c vd :
  lookup (ds_avps (drun ops)) c vd = last_def (c, vd) (defs_of ops).
Proof.
  rewrite drun_avps, lookup_insall. destruct (last_def (c, vd) (defs_of ops)); reflexivity.
Qed.

Lemma none_iff_never_defined ops c vd :
  lookup (ds_avps (drun ops)) c vd = None <->
  (forall x, In x (defs_of ops) -> key_of x <> (c, vd)).
Proof. rewrite latest_wins. apply last_def_none_iff. Qed.

(* what "latest" means, spelled out on the history *)
Lemma latest_wins_explicit ops c vd x :
  lookup (ds_avps (drun ops)) c vd = Some x <->
  exists l1 l2, defs_of ops = l1 ++ x :: l2 /\ key_of x = (c, vd)
                /\ forall y, In y l2 -> key_of y <> (c, vd).
Proof. rewrite latest_wins. apply last_def_some_iff. Qed.

Lemma no_shadowing ops c v :
  lookup (ds_avps (drun ops)) c (Some v) = last_def (c, Some v) (defs_of ops)
  /\ lookup (ds_avps (drun ops)) c None = last_def (c, None) (defs_of ops)
  /\ (forall x, key_of x = (c, Some v) -> key_of x <> (c, None)).
Proof.
  split; [apply latest_wins|]. split; [apply latest_wins|].
  intros x H F. rewrite H in F. discriminate.
Qed.

(* sharper: add_avp leaves the answer for every other key untouched (no sortedness needed) *)
Lemma add_other_key_unchanged_any s df c vd :
  key_of df <> (c, vd) ->
  lookup (ds_avps (add_avp s df)) c vd = lookup (ds_avps s) c vd.
Proof.
  intros H. cbn [add_avp ds_avps]. rewrite lookup_ins.
  destruct (key_eqb (c, vd) (key_of df)) eqn:E; [|reflexivity].
  apply key_eqb_eq in E. exfalso. apply H. symmetry. exact E.
Qed.

Lemma add_other_key_unchanged s df c vd :
  sorted (ds_avps s) -> key_of df <> (c, vd) ->
  lookup (ds_avps (add_avp s df)) c vd = lookup (ds_avps s) c vd.
Proof. intros _. apply add_other_key_unchanged_any. Qed.

Lemma add_same_key s df :
  lookup (ds_avps (add_avp s df)) (d_code df) (d_vendor df) = Some df.
Proof.
  cbn [add_avp ds_avps]. rewrite lookup_ins.
  change (d_code df, d_vendor df) with (key_of df). rewrite key_eqb_refl. reflexivity.
Qed.

Lemma add_avp_sorted s df : sorted (ds_avps s) -> sorted (ds_avps (add_avp s df)).
Proof. cbn [add_avp ds_avps]. apply ins_sorted. Qed.

(* a vendor-less add never changes a vendor-specific answer with the same code, and vice versa *)
Lemma add_vendorless_keeps_vendor s df c v :
  d_vendor df = None -> lookup (ds_avps (add_avp s df)) c (Some v) = lookup (ds_avps s) c (Some v).
Proof.
  intros H. apply add_other_key_unchanged_any. unfold key_of. rewrite H. discriminate.
Qed.
Lemma add_vendor_keeps_vendorless s df c v :
  d_vendor df = Some v -> lookup (ds_avps (add_avp s df)) c None = lookup (ds_avps s) c None.
Proof.
  intros H. apply add_other_key_unchanged_any. unfold key_of. rewrite H. discriminate.
Qed.

(* the entries of the map are exactly the live definitions *)
Lemma in_drun_live ops x : In x (ds_avps (drun ops)) <-> live (defs_of ops) x.
Proof.
  unfold live, key_of. split; intros H.
  - rewrite <- latest_wins. apply sorted_lookup_in; [apply drun_sorted|exact H].
  - rewrite <- latest_wins in H. apply lookup_some in H. apply H.
Qed.

Lemma by_name_sound ops n x :
  by_name (ds_avps (drun ops)) n = Some x -> live (defs_of ops) x /\ d_name x = n.
Proof.
  unfold by_name. intros H. apply find_some in H. destruct H as [H1 H2].
  split; [apply in_drun_live, H1|apply list_beq_eq, H2].
Qed.

Lemma by_name_complete ops n :
  (exists x, live (defs_of ops) x /\ d_name x = n) -> by_name (ds_avps (drun ops)) n <> None.
Proof.
  intros [x [H1 H2]] F. unfold by_name in F. apply in_drun_live in H1.
  pose proof (find_none _ _ F x H1) as G. cbn beta in G.
  rewrite H2, list_beq_refl in G. discriminate.
Qed.

(* which one, when several live definitions share the name: the one with the least key
   (values() iterates in key order) *)
Lemma by_name_least ops n x :
  by_name (ds_avps (drun ops)) n = Some x ->
  forall y, live (defs_of ops) y -> d_name y = n ->
            y = x \/ key_ltb (key_of x) (key_of y) = true.
Proof.
  unfold by_name. intros H y Hy Ny.
  apply (sorted_find_least _ _ _ (drun_sorted ops) H y).
  - apply in_drun_live, Hy.
  - apply list_beq_eq, Ny.
Qed.

Lemma dict_fn_latest ops c vd :
  dict_fn (drun ops) c vd = option_map d_ty (last_def (c, vd) (defs_of ops)).
Proof.
  unfold dict_fn. rewrite latest_wins. destruct (last_def (c, vd) (defs_of ops)); reflexivity.
Qed.

(* ------------------------------------------------------------------ *)
(* applications / commands: HashMap::insert, last inserted wins         *)
(* ------------------------------------------------------------------ *)
Lemma find_app_ {A} (f : A -> bool) l1 l2 :
  find f (l1 ++ l2) = match find f l1 with Some x => Some x | None => find f l2 end.
Proof.
  induction l1 as [|a l1 IH]; cbn [app find]; [reflexivity|]. destruct (f a); [reflexivity|exact IH].
Qed.

Lemma nm_get_rev l m k :
  nm_get (rev l ++ m) k = match nm_last k l with Some v => Some v | None => nm_get m k end.
Proof.
  revert m. induction l as [|p ps IH]; cbn [rev nm_last app]; intros m; [reflexivity|].
  rewrite <- app_assoc. cbn [app]. rewrite IH. destruct (nm_last k ps); [reflexivity|].
  unfold nm_get. cbn [find]. destruct (list_beq (fst p) k); reflexivity.
Qed.

Lemma nm_last_none_iff k l : nm_last k l = None <-> (forall p, In p l -> fst p <> k).
Proof.
  induction l as [|a l IH]; cbn [nm_last In].
  - split; [intros _ x []|reflexivity].
  - destruct (nm_last k l) as [y|] eqn:E.
    + split; [discriminate|]. intros H. exfalso.
      assert (Some y = None) as F by (apply IH; intros x Hx; apply H; right; exact Hx). discriminate.
    + destruct (list_beq (fst a) k) eqn:Ea.
      * split; [discriminate|]. intros H. exfalso. apply list_beq_eq in Ea.
        apply (H a); [left; reflexivity|exact Ea].
      * split; [|reflexivity]. intros _ x [<-|Hx].
        -- apply list_beq_false in Ea. exact Ea.
        -- destruct IH as [IH1 _]. apply IH1; [reflexivity|exact Hx].
Qed.

Lemma nm_last_app k l1 l2 :
  nm_last k (l1 ++ l2) = match nm_last k l2 with Some y => Some y | None => nm_last k l1 end.
Proof.
  induction l1 as [|x l1 IH]; cbn [app nm_last].
  - destruct (nm_last k l2); reflexivity.
  - rewrite IH. destruct (nm_last k l2); reflexivity.
Qed.

Lemma nm_last_some_iff k l v :
  nm_last k l = Some v <->
  exists l1 l2, l = l1 ++ (k, v) :: l2 /\ forall p, In p l2 -> fst p <> k.
Proof.
  split.
  - revert v. induction l as [|a l IH]; cbn [nm_last]; intros v H; [discriminate|].
    destruct (nm_last k l) as [y|] eqn:E.
    + inversion H; subst. destruct (IH v eq_refl) as [l1 [l2 [E1 E2]]].
      exists (a :: l1), l2. rewrite E1. split; [reflexivity|assumption].
    + destruct (list_beq (fst a) k) eqn:Ea; [|discriminate]. inversion H; subst.
      apply list_beq_eq in Ea. exists [], l. destruct a as [a1 a2]. cbn [fst snd] in *. subst.
      split; [reflexivity|]. apply nm_last_none_iff. exact E.
  - intros [l1 [l2 [E1 E2]]]. subst l. rewrite nm_last_app. cbn [nm_last fst snd].
    apply nm_last_none_iff in E2. rewrite E2. rewrite list_beq_refl. reflexivity.
Qed.

Lemma apps_latest ops n : nm_get (ds_apps (drun ops)) n = nm_last n (apps_of ops).
Proof.
  rewrite drun_apps. rewrite <- (app_nil_r (rev (apps_of ops))). rewrite nm_get_rev.
  destruct (nm_last n (apps_of ops)); reflexivity.
Qed.

Lemma cmds_latest ops n : nm_get (ds_cmds (drun ops)) n = nm_last n (cmds_of ops).
Proof.
  rewrite drun_cmds. rewrite <- (app_nil_r (rev (cmds_of ops))). rewrite nm_get_rev.
  destruct (nm_last n (cmds_of ops)); reflexivity.
Qed.

(* add_avp never touches the name maps *)
Lemma add_avp_names s df : ds_apps (add_avp s df) = ds_apps s /\ ds_cmds (add_avp s df) = ds_cmds s.
Proof. split; reflexivity. Qed.

(* ------------------------------------------------------------------ *)
(* the 'must' parser: s.split(',') and contains("M")                    *)
(* ------------------------------------------------------------------ *)
Lemma split_comma_aux_nonempty cur s : split_comma_aux cur s <> [].
Proof.
  revert cur. induction s as [|b s IH]; cbn [split_comma_aux]; intros cur; [discriminate|].
  destruct (Byte.eqb b x2c); [discriminate|apply IH].
Qed.

Lemma concat_split_aux cur s : concat_with_comma (split_comma_aux cur s) = rev cur ++ s.
Proof.
  revert cur. induction s as [|b s IH]; cbn [split_comma_aux]; intros cur.
  - cbn [concat_with_comma]. symmetry. apply app_nil_r.
  - destruct (Byte.eqb b x2c) eqn:E.
    + apply byte_dec_bl in E. subst b. cbn [concat_with_comma].
      destruct (split_comma_aux [] s) as [|t ts] eqn:Es; [exfalso; exact (split_comma_aux_nonempty _ _ Es)|].
      rewrite <- Es, IH. reflexivity.
    + rewrite IH. cbn [rev]. rewrite <- app_assoc. reflexivity.
Qed.

Lemma split_aux_nocomma cur s :
  ~ In x2c cur -> Forall (fun t => ~ In x2c t) (split_comma_aux cur s).
Proof.
  revert cur. induction s as [|b s IH]; cbn [split_comma_aux]; intros cur H.
  - constructor; [|constructor]. intros F. apply in_rev in F. exact (H F).
  - destruct (Byte.eqb b x2c) eqn:E.
    + constructor; [intros F; apply in_rev in F; exact (H F)|]. apply IH. intros [].
    + apply IH. intros [F|F]; [|exact (H F)]. apply eqb_false in E. apply E. exact F.
Qed.

Lemma split_comma_spec s :
  concat_with_comma (split_comma s) = s /\ Forall (fun t => ~ In x2c t) (split_comma s).
Proof.
  unfold split_comma. split; [apply (concat_split_aux [] s)|]. apply split_aux_nocomma. intros [].
Qed.

Lemma split_comma_nonempty s : split_comma s <> [].
Proof. apply split_comma_aux_nonempty. Qed.

(* the decomposition is unique: any non-empty list of comma-free pieces that joins to s IS split_comma s *)
Lemma concat_comma_inj l1 l2 :
  l1 <> [] -> l2 <> [] ->
  Forall (fun t => ~ In x2c t) l1 -> Forall (fun t => ~ In x2c t) l2 ->
  concat_with_comma l1 = concat_with_comma l2 -> l1 = l2.
Proof.
  assert (piece : forall (t u : list byte) r1 r2,
             ~ In x2c t -> ~ In x2c u -> t ++ x2c :: r1 = u ++ x2c :: r2 -> t = u /\ r1 = r2).
  { induction t as [|a t IHt]; intros [|b u] r1 r2 Ht Hu E; cbn [app] in E.
    - inversion E. split; reflexivity.
    - inversion E; subst. exfalso. apply Hu. left. reflexivity.
    - inversion E; subst. exfalso. apply Ht. left. reflexivity.
    - inversion E; subst. destruct (IHt u r1 r2) as [-> ->]; [| |assumption|split; reflexivity].
      + intros F. apply Ht. right. exact F.
      + intros F. apply Hu. right. exact F. }
  assert (single : forall (t u : list byte) r, ~ In x2c t -> t <> u ++ x2c :: r).
  { intros t u r Ht E. apply Ht. rewrite E. apply in_or_app. right. left. reflexivity. }
  revert l2. induction l1 as [|t ts IH]; intros l2 N1 N2 F1 F2 E; [contradiction|].
  destruct l2 as [|u us]; [contradiction|].
  inversion F1 as [|? ? Ht Fts]; subst. inversion F2 as [|? ? Hu Fus]; subst.
  cbn [concat_with_comma] in E. destruct ts as [|t' ts], us as [|u' us].
  - subst. reflexivity.
  - exfalso. exact (single _ _ _ Ht E).
  - exfalso. symmetry in E. exact (single _ _ _ Hu E).
  - apply piece in E; [|assumption|assumption]. destruct E as [-> E].
    f_equal. apply IH; [discriminate|discriminate|assumption|assumption|exact E].
Qed.

Lemma split_comma_unique s l :
  l <> [] -> Forall (fun t => ~ In x2c t) l -> concat_with_comma l = s -> split_comma s = l.
Proof.
  intros N F E. destruct (split_comma_spec s) as [E1 F1].
  apply concat_comma_inj; [apply split_comma_nonempty|exact N|exact F1|exact F|].
  rewrite E1, E. reflexivity.
Qed.

Lemma must_has_m_iff s : must_has_m (Some s) = true <-> In [x4d] (split_comma s).
Proof.
  cbn [must_has_m]. rewrite existsb_exists. split.
  - intros [t [H1 H2]]. apply list_beq_eq in H2. subst. exact H1.
  - intros H. exists [x4d]. split; [exact H|reflexivity].
Qed.

Lemma must_has_m_none : must_has_m None = false.
Proof. reflexivity. Qed.

(* ------------------------------------------------------------------ *)
(* the data-type name table (dictionary side of C15)                    *)
(* ------------------------------------------------------------------ *)
Lemma ty_of_name_known : Forall (fun p => ty_of_name (fst p) = snd p) ty_names.
Proof. unfold ty_names. repeat constructor. Qed.

Lemma list_byte_eq_dec (a b : list byte) : {a = b} + {a <> b}.
Proof.
  destruct (list_beq a b) eqn:E; [left; apply list_beq_eq, E|right; apply list_beq_false, E].
Qed.

(* NoDup by a boolean check *)
Fixpoint nodupb (l : list (list byte)) : bool :=
  match l with
  | [] => true
  | x :: xs => negb (existsb (list_beq x) xs) && nodupb xs
  end.
Lemma nodupb_NoDup l : nodupb l = true -> NoDup l.
Proof.
  induction l as [|x xs IH]; cbn [nodupb]; intros H; [constructor|].
  apply andb_true_iff in H. destruct H as [H1 H2]. constructor; [|apply IH, H2].
  intros Hin. apply negb_true_iff in H1.
  assert (existsb (list_beq x) xs = true) as F.
  { apply existsb_exists. exists x. split; [exact Hin|apply list_beq_refl]. }
  rewrite F in H1. discriminate.
Qed.

Lemma ty_names_distinct : NoDup (map fst ty_names).
Proof. apply nodupb_NoDup. vm_compute. reflexivity. Qed.

Lemma ty_of_name_unknown n : ~ In n (map fst ty_names) -> ty_of_name n = TUnknown.
Proof.
  intros H. unfold ty_of_name. destruct (find (fun p => list_beq (fst p) n) ty_names) as [p|] eqn:E; [|reflexivity].
  exfalso. apply find_some in E. destruct E as [E1 E2]. apply list_beq_eq in E2. subst n.
  apply H. apply in_map. exact E1.
Qed.

Lemma ty_of_name_in n t : In (n, t) ty_names -> ty_of_name n = t.
Proof.
  intros H. pose proof ty_of_name_known as K. rewrite Forall_forall in K. exact (K _ H).
Qed.

Lemma ty_of_name_spec n t :
  ty_of_name n = t <-> (In (n, t) ty_names \/ (~ In n (map fst ty_names) /\ t = TUnknown)).
Proof.
  split.
  - intros H. unfold ty_of_name in H.
    destruct (find (fun p => list_beq (fst p) n) ty_names) as [p|] eqn:E.
    + left. apply find_some in E. destruct E as [E1 E2]. apply list_beq_eq in E2.
      destruct p as [p1 p2]. cbn [fst snd] in *. subst. exact E1.
    + right. split; [|symmetry; exact H]. intros Hin. apply in_map_iff in Hin.
      destruct Hin as [p [P1 P2]]. pose proof (find_none _ _ E p P2) as G. cbn beta in G.
      rewrite P1, list_beq_refl in G. discriminate.
  - intros [H|[H1 H2]]; [apply ty_of_name_in, H|]. subst. apply ty_of_name_unknown, H1.
Qed.

(* each of the 16 types other than TUnknown occurs exactly once among the table's values *)
Lemma ty_names_all_types :
  NoDup (map snd ty_names)
  /\ (forall t, In t (map snd ty_names) <-> t <> TUnknown)
  /\ (forall t, t <> TUnknown -> length (filter (ty_eqb t) (map snd ty_names)) = 1%nat)
  /\ length ty_names = 16%nat.
Proof.
  split; [|split; [|split]].
  - unfold ty_names. cbn [map snd]. repeat constructor; cbn [In]; intuition discriminate.
  - intros t. split.
    + intros H F. subst. unfold ty_names in H. cbn [map snd In] in H. intuition discriminate.
    + intros H. destruct t; try contradiction; unfold ty_names; cbn [map snd In]; tauto.
  - intros t H. destruct t; try contradiction; vm_compute; reflexivity.
  - reflexivity.
Qed.

(* so a type other than Unknown is produced by exactly one spelling *)
Lemma ty_of_name_inj n1 n2 :
  ty_of_name n1 <> TUnknown -> ty_of_name n1 = ty_of_name n2 -> n1 = n2.
Proof.
  intros H E.
  destruct (proj1 (ty_of_name_spec n1 _) eq_refl) as [A|[_ A]]; [|contradiction].
  destruct (proj1 (ty_of_name_spec n2 _) eq_refl) as [B|[_ B]]; [|rewrite <- E in B; contradiction].
  rewrite <- E in B. revert A B. generalize (ty_of_name n1). intros t A B.
  unfold ty_names in A, B. cbn [In] in A, B.
  repeat (destruct A as [A|A]; [inversion A; subst;
    repeat (destruct B as [B|B]; [inversion B; subst; try reflexivity|]); contradiction|]).
  contradiction.
Qed.

(* ------------------------------------------------------------------ *)
(* non-vacuity: a concrete history                                      *)
(* ------------------------------------------------------------------ *)
Module Ex.
  Definition sA := [x41]. Definition sB := [x42]. Definition sC := [x43].
  Definition na := [x61]. Definition nb := [x62]. Definition nc := [x63]. Definition nz := [x7a].
  Definition tn_utf8 := [x55;x54;x46;x38;x53;x74;x72;x69;x6e;x67].
  Definition tn_u32 := [x55;x6e;x73;x69;x67;x6e;x65;x64;x33;x32].
  Definition tn_time := [x54;x69;x6d;x65].
  Definition tn_grouped := [x47;x72;x6f;x75;x70;x65;x64].
  (* two applications whose AVP codes collide (code 1, vendor-less), a vendor twin of code 1,
     then explicit adds: an override of (2, 10415) and a vendor-less twin of code 2 *)
  Definition app1 := MkXApp sA 4 [(sC, 272)]
    [ MkX 1 None na tn_utf8 (Some [x4d]);
      MkX 2 (Some 10415) nb tn_u32 (Some [x4d; x2c; x56]) ].
  Definition app2 := MkXApp sB 16777238 [(sC, 999)]
    [ MkX 1 None nc tn_time None;
      MkX 1 (Some 10415) na tn_grouped (Some [x56; x2c; x4d]) ].
  Definition ops : list dop :=
    [ DLoad [app1; app2];
      DAdd (MkDef 2 (Some 10415) nz TOctets false);
      DAdd (MkDef 2 None nb TI32 true) ].
  Definition st := drun ops.

  Example ex_defs : length (defs_of ops) = 6%nat. Proof. reflexivity. Qed.
  (* the second application's definition of (1, None) replaced the first's *)
  Example ex_collide : lookup (ds_avps st) 1 None = Some (MkDef 1 None nc TTime false).
  Proof. vm_compute. reflexivity. Qed.
  (* the vendor twin of code 1 is a separate entry *)
  Example ex_twin1 : lookup (ds_avps st) 1 (Some 10415) = Some (MkDef 1 (Some 10415) na TGrouped true).
  Proof. vm_compute. reflexivity. Qed.
  (* the explicit add replaced the loaded (2, 10415) *)
  Example ex_override : lookup (ds_avps st) 2 (Some 10415) = Some (MkDef 2 (Some 10415) nz TOctets false).
  Proof. vm_compute. reflexivity. Qed.
  Example ex_twin2 : lookup (ds_avps st) 2 None = Some (MkDef 2 None nb TI32 true).
  Proof. vm_compute. reflexivity. Qed.
  Example ex_other_vendor : lookup (ds_avps st) 2 (Some 10416) = None.
  Proof. vm_compute. reflexivity. Qed.
  Example ex_never : lookup (ds_avps st) 3 None = None.
  Proof. vm_compute. reflexivity. Qed.
  (* the stored order: every vendor-less key before every vendor key *)
  Example ex_order : map key_of (ds_avps st) = [(1, None); (2, None); (1, Some 10415); (2, Some 10415)].
  Proof. vm_compute. reflexivity. Qed.
  (* by name: "a" (1,None) was replaced by "c", so "a" now finds the vendor twin;
     "b" (2,10415) was replaced by "z", so "b" finds the vendor-less add *)
  Example ex_by_name_a : by_name (ds_avps st) na = Some (MkDef 1 (Some 10415) na TGrouped true).
  Proof. vm_compute. reflexivity. Qed.
  Example ex_by_name_b : by_name (ds_avps st) nb = Some (MkDef 2 None nb TI32 true).
  Proof. vm_compute. reflexivity. Qed.
  Example ex_by_name_none : by_name (ds_avps st) [x71] = None.
  Proof. vm_compute. reflexivity. Qed.
  Example ex_dict_fn : dict_fn st 1 None = Some TTime /\ dict_fn st 9 None = None.
  Proof. vm_compute. split; reflexivity. Qed.
  Example ex_apps : nm_get (ds_apps st) sA = Some 4 /\ nm_get (ds_apps st) sB = Some 16777238
                    /\ nm_get (ds_apps st) sC = None.
  Proof. vm_compute. repeat split; reflexivity. Qed.
  (* both applications define command "C": the later one wins *)
  Example ex_cmds : nm_get (ds_cmds st) sC = Some 999.
  Proof. vm_compute. reflexivity. Qed.
  Example ex_live : live (defs_of ops) (MkDef 1 None nc TTime false)
                    /\ ~ live (defs_of ops) (MkDef 1 None na TUtf8 true).
  Proof. unfold live. vm_compute. split; [reflexivity|discriminate]. Qed.
  (* the sorted hypothesis of add_other_key_unchanged is satisfiable by a non-empty state *)
  Example ex_sorted_nonvacuous : sorted (ds_avps st) /\ ds_avps st <> [].
  Proof. split; [apply drun_sorted|vm_compute; discriminate]. Qed.
  Example ex_split : split_comma [x56; x2c; x4d; x2c] = [[x56]; [x4d]; []].
  Proof. reflexivity. Qed.
  Example ex_split_empty : split_comma [] = [[]].
  Proof. reflexivity. Qed.
  Example ex_must : must_has_m (Some [x56; x2c; x4d]) = true /\ must_has_m (Some [x4d; x4d]) = false
                    /\ must_has_m (Some [x20; x4d]) = false.
  Proof. vm_compute. repeat split; reflexivity. Qed.
  Example ex_ty : ty_of_name tn_time = TTime /\ ty_of_name [x74;x69;x6d;x65] = TUnknown.
  Proof. vm_compute. split; reflexivity. Qed.
End Ex.
