(* Facts about the fifteen value codecs: reported length = octets produced, decode after
   encode is the identity on the wire domain, and anything a value decoder accepts is the
   encoding of the value it returns. *)
Require Import DV.Base.Bytes DV.Base.Utf8 DV.Model.Leaf.
Local Open Scope N_scope.

Lemma leaf_len_enc l : leaf_rep l = true -> leaf_len l = blen (enc_leaf l).
Proof.
  destruct l; cbn [leaf_rep leaf_len enc_leaf]; intros H;
    rewrite ?blen_app, ?blen_cons, ?blen_nil, ?blen_be32, ?blen_be64; try reflexivity; try lia.
Qed.

Lemma leaf_wire_rep l : leaf_wire l = true -> leaf_rep l = true.
Proof. unfold leaf_wire. intros H. apply andb_true_iff in H. tauto. Qed.

Lemma leaf_wire_enc_ok l : leaf_wire l = true -> leaf_enc_ok l = true.
Proof. unfold leaf_wire. destruct l; cbn [leaf_enc_ok leaf_rep andb]; intros H; try reflexivity. exact H. Qed.

Lemma read4_app a b c e rest : read4 ([a;b;c;e] ++ rest) = Some ([a;b;c;e], rest).
Proof. reflexivity. Qed.
Lemma read8_app a b c e f g h i rest : read8 ([a;b;c;e;f;g;h;i] ++ rest) = Some ([a;b;c;e;f;g;h;i], rest).
Proof. reflexivity. Qed.
Lemma read4_be32 n rest : read4 (be32 n ++ rest) = Some (be32 n, rest).
Proof. reflexivity. Qed.
Lemma read8_be64 n rest : read8 (be64 n ++ rest) = Some (be64 n, rest).
Proof. reflexivity. Qed.
Lemma read4_some r s r' : read4 r = Some (s, r') ->
  exists a b c e, s = [a;b;c;e] /\ r = s ++ r'.
Proof.
  destruct r as [|a [|b [|c [|e r0]]]]; try discriminate. cbn. intros H. inversion H; subst.
  exists a, b, c, e. auto.
Qed.
Lemma read8_some r s r' : read8 r = Some (s, r') ->
  exists a b c e f g h i, s = [a;b;c;e;f;g;h;i] /\ r = s ++ r'.
Proof.
  destruct r as [|a [|b [|c [|e [|f [|g [|h [|i r0]]]]]]]]; try discriminate. cbn. intros H. inversion H; subst.
  exists a, b, c, e, f, g, h, i. auto.
Qed.

Lemma take_app_n (s rest : list byte) n : blen s = n -> take n (s ++ rest) = Some (s, rest).
Proof. intros <-. apply take_app. Qed.

Local Ltac bools :=
  repeat match goal with
  | H : (_ && _) = true |- _ => apply andb_true_iff in H; destruct H
  | H : (_ =? _) = true |- _ => apply N.eqb_eq in H
  | H : (_ <? _) = true |- _ => apply N.ltb_lt in H
  | H : (_ <=? _) = true |- _ => apply N.leb_le in H
  | H : (_ <=? _)%Z = true |- _ => apply Z.leb_le in H
  | H : (_ <? _)%Z = true |- _ => apply Z.ltb_lt in H
  end.

(* decode after encode *)
Lemma dec_enc_leaf l vl rest :
  leaf_wire l = true ->
  (fixed_size (leaf_ty l) = None -> vl = blen (enc_leaf l)) ->
  dec_leaf (leaf_ty l) vl (enc_leaf l ++ rest) = Some (l, rest).
Proof.
  intros Hw Hvl. unfold leaf_wire in Hw.
  destruct l; cbn [leaf_ty enc_leaf dec_leaf leaf_rep fixed_size] in *; bools;
    try (specialize (Hvl eq_refl); subst vl).
  - (* Addr4 *) cbn [app]. change (un_be [x00; x01]) with 1. cbn [N.eqb Pos.eqb]. change (1 =? 1) with true. cbv iota.
    rewrite !blen_cons. replace (1 + (1 + blen s) =? 6) with true by (symmetry; apply N.eqb_eq; lia).
    rewrite take_app_n by assumption. reflexivity.
  - (* Addr6 *) cbn [app]. change (un_be [x00; x02]) with 2. change (2 =? 1) with false. change (2 =? 2) with true. cbv iota.
    rewrite !blen_cons. replace (1 + (1 + blen s) =? 18) with true by (symmetry; apply N.eqb_eq; lia).
    rewrite take_app_n by assumption. reflexivity.
  - (* E164 *) cbn [app]. change (un_be [x00; x08]) with 8. change (8 =? 1) with false. change (8 =? 2) with false. change (8 =? 8) with true. cbv iota.
    rewrite !blen_cons.
    destruct (N.ltb_spec 17 (1 + (1 + blen s))); [lia|].
    destruct (N.ltb_spec (1 + (1 + blen s)) 3); [lia|].
    rewrite take_app_n by lia.
    match goal with H : utf8_valid s = true |- _ => rewrite H end. reflexivity.
  - rewrite take_app_n by assumption. reflexivity.
  - rewrite take_app_n by assumption. reflexivity.
  - rewrite take_app. match goal with H : utf8_valid s = true |- _ => rewrite H end. reflexivity.
  - rewrite take_app. reflexivity.
  - (* Enum *) rewrite read4_be32, un_be32 by apply u32_of_z_lt. unfold i32_ok in *. bools. rewrite z_u32_z by lia. reflexivity.
  - rewrite read4_be32, un_be32 by assumption. reflexivity.
  - rewrite read8_be64, un_be64 by assumption. reflexivity.
  - rewrite read4_be32, un_be32 by apply u32_of_z_lt. unfold i32_ok in *. bools. rewrite z_u32_z by lia. reflexivity.
  - rewrite read8_be64, un_be64 by apply u64_of_z_lt. unfold i64_ok in *. bools. rewrite z_u64_z by lia. reflexivity.
  - rewrite take_app. reflexivity.
  - (* Time *) rewrite read4_be32, un_be32 by apply u32_of_z_lt. unfold time_ok, rfc868_offset in *. bools.
    unfold u32_of_z, u_of_z. change (Z.of_N (2 ^ 32)) with 4294967296%Z.
    replace (Z.of_N (Z.to_N ((t + 2208988800) mod 4294967296)) - 2208988800)%Z with t by lia. reflexivity.
  - rewrite read4_be32, un_be32 by assumption. reflexivity.
  - rewrite read8_be64, un_be64 by assumption. reflexivity.
  - rewrite take_app. match goal with H : utf8_valid s = true |- _ => rewrite H end. reflexivity.
Qed.

(* anything accepted is the image of the value returned *)
Definition size_agrees (t : ty) (vl : N) (data : list byte) : Prop :=
  match fixed_size t with Some k => blen data = k | None => blen data = vl end.

Lemma dec_leaf_sound t vl r l r' :
  dec_leaf t vl r = Some (l, r') ->
  r = enc_leaf l ++ r' /\ leaf_ty l = t /\ leaf_wire l = true /\ size_agrees t vl (enc_leaf l).
Proof.
  unfold size_agrees, leaf_wire.
  destruct t; cbn [dec_leaf fixed_size]; try discriminate.
  - (* Address *)
    destruct r as [|f0 [|f1 r1]]; try discriminate.
    cbv zeta. pose proof (be16_un f0 f1) as Hfam.
    destruct (N.eqb_spec (un_be [f0; f1]) 1) as [E1|N1].
    { rewrite E1 in Hfam. change (be16 1) with [x00; x01] in Hfam. inversion Hfam; subst f0 f1.
      destruct (N.eqb_spec vl 6); [|discriminate].
      destruct (take 4 r1) as [[s r2]|] eqn:Et; [|discriminate]. intros H'. inversion H'; subst.
      apply take_some in Et. destruct Et as [-> Hs]. cbn [enc_leaf leaf_ty leaf_rep app].
      rewrite !blen_cons, Hs. repeat split; reflexivity. }
    destruct (N.eqb_spec (un_be [f0; f1]) 2) as [E2|N2].
    { rewrite E2 in Hfam. change (be16 2) with [x00; x02] in Hfam. inversion Hfam; subst f0 f1.
      destruct (N.eqb_spec vl 18); [|discriminate].
      destruct (take 16 r1) as [[s r2]|] eqn:Et; [|discriminate]. intros H'. inversion H'; subst.
      apply take_some in Et. destruct Et as [-> Hs]. cbn [enc_leaf leaf_ty leaf_rep app].
      rewrite !blen_cons, Hs. repeat split; reflexivity. }
    destruct (N.eqb_spec (un_be [f0; f1]) 8) as [E8|N8]; [|discriminate].
    rewrite E8 in Hfam. change (be16 8) with [x00; x08] in Hfam. inversion Hfam; subst f0 f1.
    destruct (N.ltb_spec 17 vl); [discriminate|]. destruct (N.ltb_spec vl 3); [discriminate|].
    destruct (take (vl - 2) r1) as [[s r2]|] eqn:Et; [|discriminate].
    destruct (utf8_valid s) eqn:Eu; [|discriminate]. intros H'. inversion H'; subst.
    apply take_some in Et. destruct Et as [-> Hs]. cbn [enc_leaf leaf_ty leaf_rep app].
    rewrite !blen_cons, Eu. repeat split; try reflexivity; try lia.
  - destruct (take 4 r) as [[s r2]|] eqn:Et; [|discriminate]. intros H'. inversion H'; subst.
    apply take_some in Et. destruct Et as [-> Hs]. cbn [enc_leaf leaf_ty leaf_rep]. rewrite Hs. repeat split; reflexivity.
  - destruct (take 16 r) as [[s r2]|] eqn:Et; [|discriminate]. intros H'. inversion H'; subst.
    apply take_some in Et. destruct Et as [-> Hs]. cbn [enc_leaf leaf_ty leaf_rep]. rewrite Hs. repeat split; reflexivity.
  - destruct (take vl r) as [[s r2]|] eqn:Et; [|discriminate].
    destruct (utf8_valid s) eqn:Eu; [|discriminate]. intros H'. inversion H'; subst.
    apply take_some in Et. destruct Et as [-> Hs]. cbn [enc_leaf leaf_ty leaf_rep]. rewrite Eu. repeat split; auto.
  - destruct (take vl r) as [[s r2]|] eqn:Et; [|discriminate]. intros H'. inversion H'; subst.
    apply take_some in Et. destruct Et as [-> Hs]. cbn [enc_leaf leaf_ty leaf_rep]. repeat split; auto.
  - (* Enum *) destruct (read4 r) as [[s r2]|] eqn:Er; [|discriminate]. intros H'. inversion H'; subst.
    apply read4_some in Er. destruct Er as (a & b & c & e & -> & ->). cbn [enc_leaf leaf_ty leaf_rep].
    pose proof (un_be4_lt a b c e). pose proof (z_of_u32_range _ H).
    rewrite u32_z_u32, be32_un by assumption. repeat split; try reflexivity.
    unfold i32_ok. apply andb_true_iff; split; [apply andb_true_iff; split; [apply Z.leb_le|apply Z.ltb_lt]; lia | reflexivity].
  - (* F32 *) destruct (read4 r) as [[s r2]|] eqn:Er; [|discriminate]. intros H'. inversion H'; subst.
    apply read4_some in Er. destruct Er as (a & b & c & e & -> & ->). cbn [enc_leaf leaf_ty leaf_rep].
    pose proof (un_be4_lt a b c e). rewrite be32_un. repeat split; try reflexivity.
    apply andb_true_iff; split; [apply N.ltb_lt; assumption | reflexivity].
  - (* F64 *) destruct (read8 r) as [[s r2]|] eqn:Er; [|discriminate]. intros H'. inversion H'; subst.
    apply read8_some in Er. destruct Er as (a & b & c & e & f & g & h & i & -> & ->). cbn [enc_leaf leaf_ty leaf_rep].
    pose proof (un_be8_lt a b c e f g h i). rewrite be64_un. repeat split; try reflexivity.
    apply andb_true_iff; split; [apply N.ltb_lt; assumption | reflexivity].
  - (* I32 *) destruct (read4 r) as [[s r2]|] eqn:Er; [|discriminate]. intros H'. inversion H'; subst.
    apply read4_some in Er. destruct Er as (a & b & c & e & -> & ->). cbn [enc_leaf leaf_ty leaf_rep].
    pose proof (un_be4_lt a b c e). pose proof (z_of_u32_range _ H).
    rewrite u32_z_u32, be32_un by assumption. repeat split; try reflexivity.
    unfold i32_ok. apply andb_true_iff; split; [apply andb_true_iff; split; [apply Z.leb_le|apply Z.ltb_lt]; lia | reflexivity].
  - (* I64 *) destruct (read8 r) as [[s r2]|] eqn:Er; [|discriminate]. intros H'. inversion H'; subst.
    apply read8_some in Er. destruct Er as (a & b & c & e & f & g & h & i & -> & ->). cbn [enc_leaf leaf_ty leaf_rep].
    pose proof (un_be8_lt a b c e f g h i). pose proof (z_of_u64_range _ H).
    rewrite u64_z_u64, be64_un by assumption. repeat split; try reflexivity.
    unfold i64_ok. apply andb_true_iff; split; [apply andb_true_iff; split; [apply Z.leb_le|apply Z.ltb_lt]; lia | reflexivity].
  - (* Octets *) destruct (take vl r) as [[s r2]|] eqn:Et; [|discriminate]. intros H'. inversion H'; subst.
    apply take_some in Et. destruct Et as [-> Hs]. cbn [enc_leaf leaf_ty leaf_rep]. repeat split; auto.
  - (* Time *) destruct (read4 r) as [[s r2]|] eqn:Er; [|discriminate]. intros H'. inversion H'; subst.
    apply read4_some in Er. destruct Er as (a & b & c & e & -> & ->). cbn [enc_leaf leaf_ty leaf_rep].
    pose proof (un_be4_lt a b c e).
    replace (u32_of_z (Z.of_N (un_be [a; b; c; e]) - rfc868_offset + rfc868_offset)) with (un_be [a;b;c;e]).
    2:{ unfold u32_of_z, u_of_z, rfc868_offset. change (Z.of_N (2 ^ 32)) with 4294967296%Z. lia. }
    rewrite be32_un. repeat split; try reflexivity.
    unfold time_ok, rfc868_offset. cbn [andb]. apply andb_true_iff; split; [apply Z.leb_le|apply Z.ltb_lt]; lia.
  - (* U32 *) destruct (read4 r) as [[s r2]|] eqn:Er; [|discriminate]. intros H'. inversion H'; subst.
    apply read4_some in Er. destruct Er as (a & b & c & e & -> & ->). cbn [enc_leaf leaf_ty leaf_rep].
    pose proof (un_be4_lt a b c e). rewrite be32_un. repeat split; try reflexivity.
    apply andb_true_iff; split; [apply N.ltb_lt; assumption | reflexivity].
  - (* U64 *) destruct (read8 r) as [[s r2]|] eqn:Er; [|discriminate]. intros H'. inversion H'; subst.
    apply read8_some in Er. destruct Er as (a & b & c & e & f & g & h & i & -> & ->). cbn [enc_leaf leaf_ty leaf_rep].
    pose proof (un_be8_lt a b c e f g h i). rewrite be64_un. repeat split; try reflexivity.
    apply andb_true_iff; split; [apply N.ltb_lt; assumption | reflexivity].
  - (* Utf8 *) destruct (take vl r) as [[s r2]|] eqn:Et; [|discriminate].
    destruct (utf8_valid s) eqn:Eu; [|discriminate]. intros H'. inversion H'; subst.
    apply take_some in Et. destruct Et as [-> Hs]. cbn [enc_leaf leaf_ty leaf_rep]. rewrite Eu. repeat split; auto.
Qed.

(* a value decoder never returns a grouped or unknown type *)
Lemma dec_leaf_is_leaf t vl r l r' : dec_leaf t vl r = Some (l, r') -> is_leaf_ty t = true.
Proof. destruct t; cbn; try discriminate; auto. Qed.

Lemma leaf_ty_is_leaf l : is_leaf_ty (leaf_ty l) = true.
Proof. destruct l; reflexivity. Qed.

(* cursor consumption *)
Lemma dec_leaf_consumes t vl r l r' : dec_leaf t vl r = Some (l, r') -> blen r' <= blen r.
Proof. intros H. apply dec_leaf_sound in H. destruct H as (-> & _). rewrite blen_app. lia. Qed.

(* the encoding determines the value, given its type *)
Lemma enc_leaf_inj l1 l2 :
  leaf_wire l1 = true -> leaf_wire l2 = true -> leaf_ty l1 = leaf_ty l2 ->
  enc_leaf l1 = enc_leaf l2 -> l1 = l2.
Proof.
  intros H1 H2 Ht He.
  pose proof (dec_enc_leaf l1 (blen (enc_leaf l1)) [] H1 (fun _ => eq_refl)) as D1.
  pose proof (dec_enc_leaf l2 (blen (enc_leaf l2)) [] H2 (fun _ => eq_refl)) as D2.
  rewrite Ht, He in D1. rewrite D1 in D2. inversion D2. reflexivity.
Qed.
