(* What survives the wire whatever the AVPs are: the message header.  From the decoder's inversion lemma and the encoder's
   header layout alone - no typing, depth or wire-domain hypothesis on the AVPs. *)
Require Import DV.Base.Bytes DV.Spec.Wire DV.Model.Avp DV.Model.Message DV.Proofs.DecSound.
From Coq Require Import Arith.

(* ---------- an answer's hop-by-hop id survives the wire ---------- *)
Lemma hbh_survives lim d a bs a' :
  enc_msg a = Ok bs -> (m_hbh a < 4294967296)%N -> dec_msg lim d bs = Ok a' -> m_hbh a' = m_hbh a.
Proof.
  unfold enc_msg. destruct (msg_enc_ok a); [|discriminate]. intros E Hlt Hd. inversion E; subst bs; clear E.
  destruct (dec_msg_inv _ _ _ _ Hd) as (rest & r' & Eb & _ & _ & _ & _ & _ & Hh' & _).
  unfold enc_msg_raw, enc_hdr in Eb.
  apply (f_equal (fun l => firstn 4 (skipn 12 l))) in Eb.
  assert (L24 : forall n, length (be24 n) = 3%nat) by reflexivity.
  assert (L32 : forall n, length (be32 n) = 4%nat) by reflexivity.
  assert (G : forall v l f c ap hb e (tl : list byte),
            firstn 4 (skipn 12 ([v] ++ be24 l ++ [f] ++ be24 c ++ be32 ap ++ be32 hb ++ be32 e ++ tl)) = be32 hb) by reflexivity.
  rewrite <- !app_assoc in Eb. rewrite !G in Eb.
  apply (f_equal un_be) in Eb. rewrite !un_be32 in Eb by assumption. symmetry. exact Eb.
Qed.


(* ---------- the whole header survives the wire, whatever the AVPs are (no typing / domain hypothesis on them) ---------- *)
Lemma header_survives lim d a bs a' :
  enc_msg a = Ok bs -> dec_msg lim d bs = Ok a' ->
  (m_ver a < 256 -> m_ver a' = m_ver a)%N /\ (m_len a' = m_len a) /\ (m_flags a < 256 -> m_flags a' = m_flags a)%N /\
  (m_cmd a < 16777216 -> m_cmd a' = m_cmd a)%N /\ (m_app a < 4294967296 -> m_app a' = m_app a)%N /\
  (m_hbh a < 4294967296 -> m_hbh a' = m_hbh a)%N /\ (m_e2e a < 4294967296 -> m_e2e a' = m_e2e a)%N.
Proof.
  unfold enc_msg. destruct (msg_enc_ok a) eqn:Eok; [|discriminate]. intros E Hd. inversion E; subst bs; clear E.
  destruct (dec_msg_inv _ _ _ _ Hd) as (rest & r' & Eb & Hv & Hl & Hf & Hc & Ha & Hh & He & _).
  unfold enc_msg_raw, enc_hdr in Eb. rewrite <- !app_assoc in Eb.
  assert (Hlen : (m_len a < 16777216)%N).
  { unfold msg_enc_ok in Eok. apply andb_true_iff in Eok. destruct Eok as [Eok _]. apply N.ltb_lt in Eok. exact Eok. }
  assert (G1 : forall v l f c ap hb e (tl : list byte), firstn 1 ([v] ++ be24 l ++ [f] ++ be24 c ++ be32 ap ++ be32 hb ++ be32 e ++ tl) = [v]) by reflexivity.
  assert (G2 : forall v l f c ap hb e (tl : list byte), firstn 3 (skipn 1 ([v] ++ be24 l ++ [f] ++ be24 c ++ be32 ap ++ be32 hb ++ be32 e ++ tl)) = be24 l) by reflexivity.
  assert (G3 : forall v l f c ap hb e (tl : list byte), firstn 1 (skipn 4 ([v] ++ be24 l ++ [f] ++ be24 c ++ be32 ap ++ be32 hb ++ be32 e ++ tl)) = [f]) by reflexivity.
  assert (G4 : forall v l f c ap hb e (tl : list byte), firstn 3 (skipn 5 ([v] ++ be24 l ++ [f] ++ be24 c ++ be32 ap ++ be32 hb ++ be32 e ++ tl)) = be24 c) by reflexivity.
  assert (G5 : forall v l f c ap hb e (tl : list byte), firstn 4 (skipn 8 ([v] ++ be24 l ++ [f] ++ be24 c ++ be32 ap ++ be32 hb ++ be32 e ++ tl)) = be32 ap) by reflexivity.
  assert (G6 : forall v l f c ap hb e (tl : list byte), firstn 4 (skipn 12 ([v] ++ be24 l ++ [f] ++ be24 c ++ be32 ap ++ be32 hb ++ be32 e ++ tl)) = be32 hb) by reflexivity.
  assert (G7 : forall v l f c ap hb e (tl : list byte), firstn 4 (skipn 16 ([v] ++ be24 l ++ [f] ++ be24 c ++ be32 ap ++ be32 hb ++ be32 e ++ tl)) = be32 e) by reflexivity.
  repeat split.
  - intros H. pose proof (f_equal (firstn 1) Eb) as E. rewrite !G1 in E. inversion E as [E1]. apply (f_equal Byte.to_N) in E1.
    rewrite !to_N_b_of_N in E1. rewrite !N.mod_small in E1 by assumption. symmetry. exact E1.
  - pose proof (f_equal (fun l => firstn 3 (skipn 1 l)) Eb) as E. cbv beta in E. rewrite !G2 in E.
    apply (f_equal un_be) in E. rewrite !un_be24 in E by assumption. symmetry. exact E.
  - intros H. pose proof (f_equal (fun l => firstn 1 (skipn 4 l)) Eb) as E. cbv beta in E. rewrite !G3 in E. inversion E as [E1].
    apply (f_equal Byte.to_N) in E1. rewrite !to_N_b_of_N in E1. rewrite !N.mod_small in E1 by assumption. symmetry. exact E1.
  - intros H. pose proof (f_equal (fun l => firstn 3 (skipn 5 l)) Eb) as E. cbv beta in E. rewrite !G4 in E.
    apply (f_equal un_be) in E. rewrite !un_be24 in E by assumption. symmetry. exact E.
  - intros H. pose proof (f_equal (fun l => firstn 4 (skipn 8 l)) Eb) as E. cbv beta in E. rewrite !G5 in E.
    apply (f_equal un_be) in E. rewrite !un_be32 in E by assumption. symmetry. exact E.
  - intros H. pose proof (f_equal (fun l => firstn 4 (skipn 12 l)) Eb) as E. cbv beta in E. rewrite !G6 in E.
    apply (f_equal un_be) in E. rewrite !un_be32 in E by assumption. symmetry. exact E.
  - intros H. pose proof (f_equal (fun l => firstn 4 (skipn 16 l)) Eb) as E. cbv beta in E. rewrite !G7 in E.
    apply (f_equal un_be) in E. rewrite !un_be32 in E by assumption. symmetry. exact E.
Qed.
