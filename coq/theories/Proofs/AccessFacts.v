(* Accessors (C18) and construction by name (C16). *)
Require Import DV.Base.Bytes DV.Base.Utf8 DV.Model.Leaf DV.Spec.Wire DV.Model.Avp DV.Model.Message
  DV.Model.Dict DV.Model.Build DV.Proofs.AvpFacts DV.Proofs.BuildFacts.
Local Open Scope N_scope.

(* ---------- lookup by code: the first AVP with that code, in list (= wire) order ---------- *)
Lemma find_first {A} (f : A -> bool) (l : list A) a :
  find f l = Some a <-> exists l1 l2, l = l1 ++ a :: l2 /\ f a = true /\ Forall (fun x => f x = false) l1.
Proof.
  induction l as [|x xs IH]; cbn [find].
  - split; [discriminate|]. intros (l1 & l2 & E & _). destruct l1; discriminate.
  - destruct (f x) eqn:Ex.
    + split.
      * intros H. inversion H; subst. exists [], xs. repeat split; auto.
      * intros (l1 & l2 & E & Ha & Hl1). destruct l1 as [|y l1]; cbn in E; inversion E; subst; [reflexivity|].
        inversion Hl1; subst. congruence.
    + rewrite IH. split.
      * intros (l1 & l2 & -> & Ha & Hl1). exists (x :: l1), l2. repeat split; auto.
      * intros (l1 & l2 & E & Ha & Hl1). destruct l1 as [|y l1]; cbn in E; inversion E; subst; [congruence|].
        inversion Hl1; subst. exists l1, l2. auto.
Qed.

Lemma find_none_iff {A} (f : A -> bool) (l : list A) :
  find f l = None <-> Forall (fun x => f x = false) l.
Proof.
  induction l as [|x xs IH]; cbn [find]; [split; auto|].
  destruct (f x) eqn:Ex.
  - split; [discriminate|]. intros H. inversion H; subst. congruence.
  - rewrite IH. split; [intros H; constructor; auto | intros H; inversion H; auto].
Qed.

Theorem get_avp_first m c a :
  get_avp m c = Some a <->
  exists l1 l2, get_avps m = l1 ++ a :: l2 /\ a_code a = c /\ Forall (fun x => a_code x <> c) l1.
Proof.
  unfold get_avp, get_avps. rewrite find_first. split; intros (l1 & l2 & E & Ha & Hl); exists l1, l2; repeat split; auto.
  - apply N.eqb_eq. exact Ha.
  - eapply Forall_impl; [|exact Hl]. cbn. intros x Hx. apply N.eqb_neq. exact Hx.
  - apply N.eqb_eq. exact Ha.
  - eapply Forall_impl; [|exact Hl]. cbn. intros x Hx. apply N.eqb_neq. exact Hx.
Qed.

Theorem get_avp_none m c :
  get_avp m c = None <-> Forall (fun x => a_code x <> c) (get_avps m).
Proof.
  unfold get_avp, get_avps. rewrite find_none_iff.
  split; intros H; (eapply Forall_impl; [|exact H]); cbn; intros x Hx; apply N.eqb_neq; exact Hx.
Qed.

(* ---------- typed accessors: the 16 x 16 matrix ---------- *)
Lemma ty_eqb_eq a b : ty_eqb a b = true <-> a = b.
Proof. destruct a, b; cbn; split; intros H; try reflexivity; try discriminate. Qed.

Theorem get_typed_spec t a v :
  get_typed t a = Some v <-> (a_val a = v /\ val_ty v = t).
Proof.
  unfold get_typed. destruct (ty_eqb (val_ty (a_val a)) t) eqn:E.
  - apply ty_eqb_eq in E. split; [intros H; inversion H; subst; auto | intros [<- _]; reflexivity].
  - split; [discriminate|]. intros [<- Ht]. apply ty_eqb_eq in Ht. congruence.
Qed.

Theorem get_typed_none t a : get_typed t a = None <-> val_ty (a_val a) <> t.
Proof.
  unfold get_typed. destruct (ty_eqb (val_ty (a_val a)) t) eqn:E.
  - apply ty_eqb_eq in E. split; [discriminate | congruence].
  - split; [|reflexivity]. intros _ Ht. apply ty_eqb_eq in Ht. congruence.
Qed.

Theorem group_members_spec v ms : group_members v = Some ms <-> v = VGrp ms.
Proof. destruct v; cbn; split; intros H; inversion H; reflexivity. Qed.

(* adding at the end never changes what was there: wire order is insertion order *)
Theorem msg_add_appends m a : get_avps (msg_add m a) = get_avps m ++ [a].
Proof. reflexivity. Qed.

(* ---------- construction by name (C16) ---------- *)
Lemma mflag_fl (b : bool) :
  ((64 <=? (if b then 64 else 0) mod 128) = b) /\ ((32 <=? (if b then 64 else 0) mod 64) = false).
Proof. destruct b; vm_compute; auto. Qed.

Theorem from_name_spec ds n v a :
  from_name ds n v = Some a ->
  exists df, by_name ds n = Some df /\ d_name df = n /\ In df ds /\
             a = mk_avp (d_code df) (d_vendor df) (d_m df) false v /\
             a = mk_avp_fl (d_code df) (d_vendor df) (if d_m df then 64 else 0) v.
Proof.
  unfold from_name. destruct (by_name ds n) as [df|] eqn:E; [|discriminate].
  intros H. inversion H; subst a. exists df. split; [reflexivity|].
  unfold by_name in E. pose proof (find_some _ _ E) as [Hin Hn]. split.
  - clear - Hn. revert n Hn. generalize (d_name df). intros l. induction l as [|x xs IH]; intros [|y ys]; cbn; try discriminate; auto.
    intros H. apply andb_true_iff in H. destruct H as [H1 H2]. f_equal; [|apply IH; exact H2].
    destruct x, y; try discriminate; reflexivity.
  - split; [exact Hin|]. split; [reflexivity|]. unfold mk_avp_fl.
    destruct (mflag_fl (d_m df)) as [-> ->]. reflexivity.
Qed.

Theorem from_name_unknown ds n v : by_name ds n = None -> from_name ds n v = None.
Proof. unfold from_name. intros ->. reflexivity. Qed.

(* the V bit of the encoding is set exactly when the definition has a vendor id *)
Theorem from_name_encoding ds n v a df :
  from_name ds n v = Some a -> by_name ds n = Some df ->
  enc_avp a = be32 (d_code df) ++ [b_of_N (flags_byte (is_some (d_vendor df)) (d_m df) false)]
              ++ be24 (hdr (d_vendor df) + val_len v) ++ optbe32 (d_vendor df) ++ enc_val v ++ zeros (pad4 (val_len v)).
Proof. unfold from_name. intros H E. rewrite E in H. inversion H; subst. reflexivity. Qed.

Theorem add_by_name_unknown_changes_nothing ds m n v :
  by_name ds n = None -> hstep ds m (HAddName n v) = (m, false).
Proof.
  intros E. cbn [hstep]. destruct (eval_v ds v); [|reflexivity]. rewrite (from_name_unknown _ _ _ E). reflexivity.
Qed.

Theorem add_by_name_known ds m n v v' df :
  eval_v ds v = Some v' -> by_name ds n = Some df ->
  hstep ds m (HAddName n v) = (msg_add m (mk_avp (d_code df) (d_vendor df) (d_m df) false v'), true).
Proof. intros Ev E. cbn [hstep]. rewrite Ev. unfold from_name. rewrite E. reflexivity. Qed.
