(* Well-formed UTF-8 exactly as Unicode Table 3-7 defines it (no overlong forms, no
   surrogates, nothing above U+10FFFF): the language [String::from_utf8] accepts.
   Tied to Rust's validator by the correspondence check (boundary sequences are enumerated). *)
Require Import DV.Base.Bytes.
Local Open Scope N_scope.

Definition in_rng (lo hi : N) (b : byte) : bool :=
  (lo <=? Byte.to_N b) && (Byte.to_N b <=? hi).

Fixpoint utf8_valid (l : list byte) : bool :=
  match l with
  | [] => true
  | b0 :: r0 =>
    let n0 := Byte.to_N b0 in
    if n0 <=? 127 then utf8_valid r0
    else if in_rng 194 223 b0 then
      match r0 with
      | b1 :: r1 => in_rng 128 191 b1 && utf8_valid r1
      | _ => false
      end
    else if in_rng 224 239 b0 then
      match r0 with
      | b1 :: b2 :: r2 =>
          (if n0 =? 224 then in_rng 160 191 b1
           else if n0 =? 237 then in_rng 128 159 b1
           else in_rng 128 191 b1)
          && in_rng 128 191 b2 && utf8_valid r2
      | _ => false
      end
    else if in_rng 240 244 b0 then
      match r0 with
      | b1 :: b2 :: b3 :: r3 =>
          (if n0 =? 240 then in_rng 144 191 b1
           else if n0 =? 244 then in_rng 128 143 b1
           else in_rng 128 191 b1)
          && in_rng 128 191 b2 && in_rng 128 191 b3 && utf8_valid r3
      | _ => false
      end
    else false
  end.
