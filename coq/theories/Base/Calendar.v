(* Proleptic Gregorian civil calendar on Z (Howard Hinnant's days_from_civil /
   civil_from_days), used to derive the RFC 868 offset between 1900-01-01 and 1970-01-01
   and the two ends of the Diameter Time range.  Definitions are executable and total. *)
Require Import DV.Base.Bytes.
Local Open Scope Z_scope.

(* days since 1970-01-01 of the civil date y-m-d *)
Definition days_from_civil (y m d : Z) : Z :=
  let y' := if m <=? 2 then y - 1 else y in
  let era := y' / 400 in
  let yoe := y' - era * 400 in
  let mp := if 2 <? m then m - 3 else m + 9 in
  let doy := (153 * mp + 2) / 5 + d - 1 in
  let doe := yoe * 365 + yoe / 4 - yoe / 100 + doy in
  era * 146097 + doe - 719468.

(* civil date of the day z days after 1970-01-01 *)
Definition civil_from_days (z : Z) : Z * Z * Z :=
  let z' := z + 719468 in
  let era := z' / 146097 in
  let doe := z' - era * 146097 in
  let yoe := (doe - doe / 1460 + doe / 36524 - doe / 146096) / 365 in
  let y := yoe + era * 400 in
  let doy := doe - (365 * yoe + yoe / 4 - yoe / 100) in
  let mp := (5 * doy + 2) / 153 in
  let d := doy - (153 * mp + 2) / 5 + 1 in
  let m := if mp <? 10 then mp + 3 else mp - 9 in
  (if m <=? 2 then y + 1 else y, m, d).

(* (year, month, day, hour, minute, second) of the instant t seconds after 1970-01-01T00:00:00Z *)
Definition civil_of_unix (t : Z) : Z * Z * Z * Z * Z * Z :=
  let days := t / 86400 in
  let sod := t - days * 86400 in
  match civil_from_days days with
  | (y, m, d) => (y, m, d, sod / 3600, (sod mod 3600) / 60, sod mod 60)
  end.

Definition is_leap (y : Z) : bool :=
  (y mod 4 =? 0) && (negb (y mod 100 =? 0) || (y mod 400 =? 0)).

Definition days_in_month (y m : Z) : Z :=
  if m =? 2 then (if is_leap y then 29 else 28)
  else if (m =? 4) || (m =? 6) || (m =? 9) || (m =? 11) then 30 else 31.

Definition valid_dateb (y m d : Z) : bool :=
  (1 <=? m) && (m <=? 12) && (1 <=? d) && (d <=? days_in_month y m).

Definition valid_date (y m d : Z) : Prop := valid_dateb y m d = true.

(* ---------- closed facts ---------- *)

Lemma epoch_1970 : days_from_civil 1970 1 1 = 0.
Proof. vm_compute. reflexivity. Qed.

Lemma epoch_1900 : days_from_civil 1900 1 1 = -25567.
Proof. vm_compute. reflexivity. Qed.

(* the constant 2208988800 of src/avp/time.rs, as a number of seconds *)
Lemma epoch_offset_seconds :
  (days_from_civil 1970 1 1 - days_from_civil 1900 1 1) * 86400 = 2208988800.
Proof. vm_compute. reflexivity. Qed.

Lemma time_upper_limit_raw : civil_of_unix (4294967295 - 2208988800) = (2036, 2, 7, 6, 28, 15).
Proof. vm_compute. reflexivity. Qed.

Lemma time_lower_limit_raw : civil_of_unix (0 - 2208988800) = (1900, 1, 1, 0, 0, 0).
Proof. vm_compute. reflexivity. Qed.

(* ---------- bounded universal check, by computation ---------- *)

Fixpoint all_from (n : nat) (z : Z) (p : Z -> bool) : bool :=
  match n with
  | O => true
  | S k => if p z then all_from k (z + 1) p else false
  end.

Lemma all_from_spec n : forall z p, all_from n z p = true ->
  forall i, z <= i < z + Z.of_nat n -> p i = true.
Proof.
  induction n as [|k IH]; intros z p H i Hi.
  - lia.
  - cbn [all_from] in H. destruct (p z) eqn:E; [|discriminate].
    destruct (Z.eq_dec i z) as [->|Hne]; [exact E|].
    apply (IH (z + 1) p H). lia.
Qed.

Definition triple_eqb (a b : Z * Z * Z) : bool :=
  match a, b with (a1, a2, a3), (b1, b2, b3) => (a1 =? b1) && (a2 =? b2) && (a3 =? b3) end.

Lemma triple_eqb_eq a b : triple_eqb a b = true -> a = b.
Proof.
  destruct a as [[a1 a2] a3], b as [[b1 b2] b3]. unfold triple_eqb. intros H.
  apply andb_true_iff in H. destruct H as [H H3]. apply andb_true_iff in H. destruct H as [H1 H2].
  apply Z.eqb_eq in H1, H2, H3. subst. reflexivity.
Qed.

(* ---------- 400-year periodicity ---------- *)

Lemma days_from_civil_shift y m d k :
  days_from_civil (y + 400 * k) m d = days_from_civil y m d + 146097 * k.
Proof.
  unfold days_from_civil.
  set (y0 := if m <=? 2 then y - 1 else y).
  replace (if m <=? 2 then y + 400 * k - 1 else y + 400 * k) with (y0 + k * 400)
    by (unfold y0; destruct (m <=? 2); lia).
  cbv zeta. rewrite Z.div_add by lia.
  replace (y0 + k * 400 - (y0 / 400 + k) * 400) with (y0 - y0 / 400 * 400) by lia.
  lia.
Qed.

Lemma civil_from_days_shift z k :
  civil_from_days (z + 146097 * k) =
  match civil_from_days z with (y, m, d) => (y + 400 * k, m, d) end.
Proof.
  unfold civil_from_days.
  replace (z + 146097 * k + 719468) with (z + 719468 + k * 146097) by lia.
  cbv zeta. rewrite Z.div_add by lia.
  replace (z + 719468 + k * 146097 - ((z + 719468) / 146097 + k) * 146097)
    with (z + 719468 - (z + 719468) / 146097 * 146097) by lia.
  set (doe := z + 719468 - (z + 719468) / 146097 * 146097).
  set (yoe := (doe - doe / 1460 + doe / 36524 - doe / 146096) / 365).
  set (doy := doe - (365 * yoe + yoe / 4 - yoe / 100)).
  set (mp := (5 * doy + 2) / 153).
  destruct ((if mp <? 10 then mp + 3 else mp - 9) <=? 2); f_equal; f_equal; lia.
Qed.

Lemma is_leap_shift y k : is_leap (y + 400 * k) = is_leap y.
Proof.
  unfold is_leap.
  replace ((y + 400 * k) mod 4) with (y mod 4)
    by (replace (y + 400 * k) with (y + (100 * k) * 4) by lia; now rewrite Z.mod_add by lia).
  replace ((y + 400 * k) mod 100) with (y mod 100)
    by (replace (y + 400 * k) with (y + (4 * k) * 100) by lia; now rewrite Z.mod_add by lia).
  replace ((y + 400 * k) mod 400) with (y mod 400)
    by (replace (y + 400 * k) with (y + k * 400) by lia; now rewrite Z.mod_add by lia).
  reflexivity.
Qed.

Lemma valid_dateb_shift y m d k : valid_dateb (y + 400 * k) m d = valid_dateb y m d.
Proof. unfold valid_dateb, days_in_month. rewrite is_leap_shift. reflexivity. Qed.

(* ---------- round trip, date -> day number -> date ---------- *)

Definition check_ymd (y m d : Z) : bool :=
  if valid_dateb y m d then triple_eqb (civil_from_days (days_from_civil y m d)) (y, m, d) else true.

(* NB: the checks below are stated in exactly the form in which they are used, so that the
   kernel never has to convert (and thereby re-evaluate) them. *)
Lemma all_from3_spec (f : Z -> Z -> Z -> bool) n1 z1 n2 z2 n3 z3 :
  all_from n1 z1 (fun a => all_from n2 z2 (fun b => all_from n3 z3 (fun c => f a b c))) = true ->
  forall a b c, z1 <= a < z1 + Z.of_nat n1 -> z2 <= b < z2 + Z.of_nat n2 -> z3 <= c < z3 + Z.of_nat n3 ->
  f a b c = true.
Proof.
  intros H a b c Ha Hb Hc.
  pose proof (all_from_spec n1 z1 _ H a Ha) as H1. cbv beta in H1.
  pose proof (all_from_spec n2 z2 _ H1 b Hb) as H2. cbv beta in H2.
  exact (all_from_spec n3 z3 _ H2 c Hc).
Qed.

Lemma check_cycle_true :
  all_from 400 0 (fun a => all_from 12 1 (fun b => all_from 31 1 (fun c => check_ymd a b c))) = true.
Proof. vm_compute. reflexivity. Qed.

Lemma civil_roundtrip_cycle y m d :
  0 <= y < 400 -> valid_date y m d -> civil_from_days (days_from_civil y m d) = (y, m, d).
Proof.
  intros Hy Hv. pose proof Hv as Hv'. unfold valid_date, valid_dateb in Hv'.
  apply andb_true_iff in Hv'. destruct Hv' as [Hv' Hd2].
  apply andb_true_iff in Hv'. destruct Hv' as [Hv' Hd1].
  apply andb_true_iff in Hv'. destruct Hv' as [Hm1 Hm2].
  assert (Hd3 : d <= 31).
  { unfold days_in_month in Hd2.
    destruct (m =? 2); [destruct (is_leap y)|destruct ((m =? 4) || (m =? 6) || (m =? 9) || (m =? 11))]; lia. }
  assert (R1 : 0 <= y < 0 + Z.of_nat 400) by lia.
  assert (R2 : 1 <= m < 1 + Z.of_nat 12) by lia.
  assert (R3 : 1 <= d < 1 + Z.of_nat 31) by lia.
  pose proof (all_from3_spec check_ymd 400 0 12 1 31 1 check_cycle_true y m d R1 R2 R3) as C3.
  unfold check_ymd in C3. unfold valid_date in Hv. rewrite Hv in C3.
  apply triple_eqb_eq. exact C3.
Qed.

(* for every year of the proleptic Gregorian calendar *)
Theorem civil_roundtrip y m d :
  valid_date y m d -> civil_from_days (days_from_civil y m d) = (y, m, d).
Proof.
  intros Hv.
  set (k := y / 400). set (y0 := y mod 400).
  assert (Ey : y = y0 + 400 * k) by (unfold y0, k; lia).
  assert (Hy0 : 0 <= y0 < 400) by (unfold y0; lia).
  rewrite Ey in Hv |- *. unfold valid_date in Hv. rewrite valid_dateb_shift in Hv.
  rewrite days_from_civil_shift, civil_from_days_shift.
  rewrite (civil_roundtrip_cycle y0 m d Hy0 Hv). reflexivity.
Qed.

(* ---------- round trip, day number -> date -> day number ---------- *)

Definition check_day (z : Z) : bool :=
  match civil_from_days z with
  | (y, m, d) => valid_dateb y m d && (days_from_civil y m d =? z)
  end.

Lemma check_days_true : all_from (N.to_nat 146097%N) 0 check_day = true.
Proof. vm_compute. reflexivity. Qed.

Lemma days_roundtrip_cycle z :
  0 <= z < 146097 ->
  match civil_from_days z with (y, m, d) => valid_date y m d /\ days_from_civil y m d = z end.
Proof.
  intros Hz.
  assert (R : 0 <= z < 0 + Z.of_nat (N.to_nat 146097%N)) by lia.
  pose proof (all_from_spec (N.to_nat 146097%N) 0 check_day check_days_true z R) as C1.
  unfold check_day in C1.
  destruct (civil_from_days z) as [[y m] d].
  apply andb_true_iff in C1. destruct C1 as [C1 C2]. apply Z.eqb_eq in C2. split; assumption.
Qed.

(* every day number is the day number of exactly the valid date civil_from_days gives *)
Theorem days_roundtrip z :
  match civil_from_days z with (y, m, d) => valid_date y m d /\ days_from_civil y m d = z end.
Proof.
  set (k := z / 146097). set (z0 := z mod 146097).
  assert (Ez : z = z0 + 146097 * k) by (unfold z0, k; lia).
  assert (Hz0 : 0 <= z0 < 146097) by (unfold z0; lia).
  rewrite Ez. rewrite civil_from_days_shift.
  pose proof (days_roundtrip_cycle z0 Hz0) as H.
  destruct (civil_from_days z0) as [[y m] d]. destruct H as [Hv Hd].
  split.
  - unfold valid_date. rewrite valid_dateb_shift. exact Hv.
  - rewrite days_from_civil_shift, Hd. reflexivity.
Qed.

(* ---------- seconds ---------- *)

(* the instant civil_of_unix names is t: date and time of day recompose to t *)
Theorem civil_of_unix_spec t y m d hh mm ss :
  civil_of_unix t = (y, m, d, hh, mm, ss) ->
  valid_date y m d /\ 0 <= hh < 24 /\ 0 <= mm < 60 /\ 0 <= ss < 60 /\
  t = days_from_civil y m d * 86400 + hh * 3600 + mm * 60 + ss.
Proof.
  unfold civil_of_unix. cbv zeta.
  pose proof (days_roundtrip (t / 86400)) as H.
  destruct (civil_from_days (t / 86400)) as [[y' m'] d']. destruct H as [Hv Hd].
  intros E. inversion E; subst; clear E.
  split; [exact Hv|]. rewrite Hd. lia.
Qed.

(* and conversely: a valid date and time of day is what civil_of_unix returns *)
Theorem civil_of_unix_complete y m d hh mm ss :
  valid_date y m d -> 0 <= hh < 24 -> 0 <= mm < 60 -> 0 <= ss < 60 ->
  civil_of_unix (days_from_civil y m d * 86400 + hh * 3600 + mm * 60 + ss) = (y, m, d, hh, mm, ss).
Proof.
  intros Hv Hh Hm Hs. unfold civil_of_unix. cbv zeta.
  set (D := days_from_civil y m d).
  replace ((D * 86400 + hh * 3600 + mm * 60 + ss) / 86400) with D by lia.
  unfold D. rewrite (civil_roundtrip y m d Hv).
  repeat f_equal; lia.
Qed.

Example civil_roundtrip_nonvacuous : valid_date 2024 2 29 /\ valid_date 1900 1 1 /\ valid_date (-401) 12 31.
Proof. repeat split; vm_compute; reflexivity. Qed.

Example civil_of_unix_example : civil_of_unix 1704882958 = (2024, 1, 10, 10, 35, 58).
Proof. vm_compute. reflexivity. Qed.
