(* Octets, big-endian integers, two's complement.  Octets are Coq.Strings.Byte.byte,
   so "every octet string" is literally [list byte]. *)
From Coq Require Export List NArith ZArith Lia Bool ZifyBool ZifyNat ZifyN.
From Coq.Strings Require Export Byte.
Export ListNotations.
Local Open Scope N_scope.

Ltac Zify.zify_post_hook ::= Z.div_mod_to_equations.
Global Arguments N.add : simpl never.
Global Arguments N.sub : simpl never.
Global Arguments N.mul : simpl never.
Global Arguments N.div : simpl never.
Global Arguments N.modulo : simpl never.
Global Arguments N.ltb : simpl never.
Global Arguments N.eqb : simpl never.
Global Arguments N.leb : simpl never.
Global Arguments Z.add : simpl never.
Global Arguments Z.sub : simpl never.
Global Arguments Z.mul : simpl never.
Global Arguments Z.modulo : simpl never.
Global Arguments Z.ltb : simpl never.
Global Arguments Z.leb : simpl never.
Global Arguments Z.eqb : simpl never.

Definition b_of_N (n : N) : byte :=
  match Byte.of_N (n mod 256) with Some b => b | None => x00 end.

Lemma to_N_b_of_N n : Byte.to_N (b_of_N n) = n mod 256.
Proof.
  unfold b_of_N. destruct (Byte.of_N (n mod 256)) eqn:E.
  - apply Byte.to_of_N in E. exact E.
  - apply Byte.of_N_None_iff in E. pose proof (N.mod_upper_bound n 256). lia.
Qed.

Lemma b_of_N_to_N b : b_of_N (Byte.to_N b) = b.
Proof.
  unfold b_of_N. pose proof (Byte.to_N_bounded b).
  rewrite N.mod_small by lia. rewrite Byte.of_to_N. reflexivity.
Qed.

Lemma b_of_N_eq n b : n mod 256 = Byte.to_N b -> b_of_N n = b.
Proof.
  intros H. rewrite <- (b_of_N_to_N b). unfold b_of_N. rewrite H.
  pose proof (Byte.to_N_bounded b). rewrite (N.mod_small (Byte.to_N b)) by lia. reflexivity.
Qed.

Lemma byte_lt b : Byte.to_N b < 256.
Proof. pose proof (Byte.to_N_bounded b). lia. Qed.

Definition blen (l : list byte) : N := N.of_nat (length l).

Lemma blen_app (a b : list byte) : blen (a ++ b) = blen a + blen b.
Proof. unfold blen. rewrite app_length. lia. Qed.
Lemma blen_nil : blen [] = 0. Proof. reflexivity. Qed.
Lemma blen_cons x l : blen (x :: l) = 1 + blen l.
Proof. unfold blen. cbn [length]. lia. Qed.

(* big-endian, written with nested /256 so that lia closes the round trips *)
Definition be16 (n : N) : list byte := [b_of_N (n / 256); b_of_N n].
Definition be24 (n : N) : list byte := [b_of_N (n / 256 / 256); b_of_N (n / 256); b_of_N n].
Definition be32 (n : N) : list byte :=
  [b_of_N (n / 256 / 256 / 256); b_of_N (n / 256 / 256); b_of_N (n / 256); b_of_N n].
Definition be64 (n : N) : list byte := be32 (n / 4294967296) ++ be32 (n mod 4294967296).

(* RFC 6733 unsigned: sum of b_i * 256^(k-1-i) *)
Definition un_be (l : list byte) : N :=
  fold_left (fun acc b => acc * 256 + Byte.to_N b) l 0.

Lemma blen_be16 n : blen (be16 n) = 2. Proof. reflexivity. Qed.
Lemma blen_be24 n : blen (be24 n) = 3. Proof. reflexivity. Qed.
Lemma blen_be32 n : blen (be32 n) = 4. Proof. reflexivity. Qed.
Lemma blen_be64 n : blen (be64 n) = 8. Proof. reflexivity. Qed.

Lemma un_be32 n : n < 4294967296 -> un_be (be32 n) = n.
Proof. intros H. unfold un_be, be32. cbn [fold_left]. rewrite !to_N_b_of_N. lia. Qed.
Lemma un_be24 n : n < 16777216 -> un_be (be24 n) = n.
Proof. intros H. unfold un_be, be24. cbn [fold_left]. rewrite !to_N_b_of_N. lia. Qed.
Lemma un_be16 n : n < 65536 -> un_be (be16 n) = n.
Proof. intros H. unfold un_be, be16. cbn [fold_left]. rewrite !to_N_b_of_N. lia. Qed.

Lemma be32_un b0 b1 b2 b3 : be32 (un_be [b0;b1;b2;b3]) = [b0;b1;b2;b3].
Proof.
  unfold un_be, be32. cbn [fold_left].
  pose proof (byte_lt b0). pose proof (byte_lt b1). pose proof (byte_lt b2). pose proof (byte_lt b3).
  repeat (f_equal; [apply b_of_N_eq; lia|]). f_equal. apply b_of_N_eq; lia.
Qed.
Lemma be24_un b0 b1 b2 : be24 (un_be [b0;b1;b2]) = [b0;b1;b2].
Proof.
  unfold un_be, be24. cbn [fold_left].
  pose proof (byte_lt b0). pose proof (byte_lt b1). pose proof (byte_lt b2).
  repeat (f_equal; [apply b_of_N_eq; lia|]). f_equal. apply b_of_N_eq; lia.
Qed.
Lemma be16_un b0 b1 : be16 (un_be [b0;b1]) = [b0;b1].
Proof.
  unfold un_be, be16. cbn [fold_left]. pose proof (byte_lt b0). pose proof (byte_lt b1).
  repeat (f_equal; [apply b_of_N_eq; lia|]). f_equal. apply b_of_N_eq; lia.
Qed.

Lemma un_be4_lt b0 b1 b2 b3 : un_be [b0;b1;b2;b3] < 4294967296.
Proof. unfold un_be. cbn [fold_left].
  pose proof (byte_lt b0). pose proof (byte_lt b1). pose proof (byte_lt b2). pose proof (byte_lt b3). lia. Qed.
Lemma un_be3_lt b0 b1 b2 : un_be [b0;b1;b2] < 16777216.
Proof. unfold un_be. cbn [fold_left].
  pose proof (byte_lt b0). pose proof (byte_lt b1). pose proof (byte_lt b2). lia. Qed.

(* 64 bits: split in two 32-bit halves *)
Lemma un_be_app4 b0 b1 b2 b3 l :
  un_be ([b0;b1;b2;b3] ++ l) = fold_left (fun acc b => acc * 256 + Byte.to_N b) l (un_be [b0;b1;b2;b3]).
Proof. unfold un_be. rewrite fold_left_app. reflexivity. Qed.

Lemma un_be8 b0 b1 b2 b3 b4 b5 b6 b7 :
  un_be [b0;b1;b2;b3;b4;b5;b6;b7] = un_be [b0;b1;b2;b3] * 4294967296 + un_be [b4;b5;b6;b7].
Proof. unfold un_be. cbn [fold_left]. lia. Qed.

Lemma un_be64 n : n < 18446744073709551616 -> un_be (be64 n) = n.
Proof.
  intros H. unfold be64, be32. cbn [app]. rewrite un_be8.
  change [b_of_N (n / 4294967296 / 256 / 256 / 256); b_of_N (n / 4294967296 / 256 / 256);
          b_of_N (n / 4294967296 / 256); b_of_N (n / 4294967296)] with (be32 (n / 4294967296)).
  change [b_of_N (n mod 4294967296 / 256 / 256 / 256); b_of_N (n mod 4294967296 / 256 / 256);
          b_of_N (n mod 4294967296 / 256); b_of_N (n mod 4294967296)] with (be32 (n mod 4294967296)).
  rewrite !un_be32 by lia. lia.
Qed.

Lemma un_be8_lt b0 b1 b2 b3 b4 b5 b6 b7 : un_be [b0;b1;b2;b3;b4;b5;b6;b7] < 18446744073709551616.
Proof. rewrite un_be8. pose proof (un_be4_lt b0 b1 b2 b3). pose proof (un_be4_lt b4 b5 b6 b7). lia. Qed.

Lemma be64_un b0 b1 b2 b3 b4 b5 b6 b7 :
  be64 (un_be [b0;b1;b2;b3;b4;b5;b6;b7]) = [b0;b1;b2;b3;b4;b5;b6;b7].
Proof.
  unfold be64. rewrite un_be8.
  pose proof (un_be4_lt b0 b1 b2 b3). pose proof (un_be4_lt b4 b5 b6 b7).
  replace ((un_be [b0;b1;b2;b3] * 4294967296 + un_be [b4;b5;b6;b7]) / 4294967296) with (un_be [b0;b1;b2;b3]) by lia.
  replace ((un_be [b0;b1;b2;b3] * 4294967296 + un_be [b4;b5;b6;b7]) mod 4294967296) with (un_be [b4;b5;b6;b7]) by lia.
  rewrite !be32_un. reflexivity.
Qed.

(* two's complement *)
Definition z_of_u (bits : N) (n : N) : Z :=
  if n <? 2 ^ (bits - 1) then Z.of_N n else (Z.of_N n - Z.of_N (2 ^ bits))%Z.
Definition u_of_z (bits : N) (z : Z) : N := Z.to_N (z mod Z.of_N (2 ^ bits)).

Definition z_of_u32 := z_of_u 32.
Definition u32_of_z := u_of_z 32.
Definition z_of_u64 := z_of_u 64.
Definition u64_of_z := u_of_z 64.

Lemma u32_of_z_lt z : u32_of_z z < 4294967296.
Proof. unfold u32_of_z, u_of_z. change (Z.of_N (2 ^ 32)) with 4294967296%Z. lia. Qed.
Lemma u64_of_z_lt z : u64_of_z z < 18446744073709551616.
Proof. unfold u64_of_z, u_of_z. change (Z.of_N (2 ^ 64)) with 18446744073709551616%Z. lia. Qed.

Lemma z_of_u32_range n : n < 4294967296 -> (-2147483648 <= z_of_u32 n < 2147483648)%Z.
Proof. intros H. unfold z_of_u32, z_of_u. change (2 ^ (32 - 1)) with 2147483648. change (Z.of_N (2 ^ 32)) with 4294967296%Z.
  destruct (N.ltb_spec n 2147483648); lia. Qed.
Lemma z_of_u64_range n : n < 18446744073709551616 -> (-9223372036854775808 <= z_of_u64 n < 9223372036854775808)%Z.
Proof. intros H. unfold z_of_u64, z_of_u. change (2 ^ (64 - 1)) with 9223372036854775808. change (Z.of_N (2 ^ 64)) with 18446744073709551616%Z.
  destruct (N.ltb_spec n 9223372036854775808); lia. Qed.

Lemma u32_z_u32 n : n < 4294967296 -> u32_of_z (z_of_u32 n) = n.
Proof. intros H. unfold u32_of_z, u_of_z, z_of_u32, z_of_u. change (2 ^ (32 - 1)) with 2147483648. change (Z.of_N (2 ^ 32)) with 4294967296%Z.
  destruct (N.ltb_spec n 2147483648); lia. Qed.
Lemma z_u32_z z : (-2147483648 <= z < 2147483648)%Z -> z_of_u32 (u32_of_z z) = z.
Proof. intros H. unfold u32_of_z, u_of_z, z_of_u32, z_of_u. change (2 ^ (32 - 1)) with 2147483648. change (Z.of_N (2 ^ 32)) with 4294967296%Z.
  destruct (N.ltb_spec (Z.to_N (z mod 4294967296)) 2147483648); lia. Qed.
Lemma u64_z_u64 n : n < 18446744073709551616 -> u64_of_z (z_of_u64 n) = n.
Proof. intros H. unfold u64_of_z, u_of_z, z_of_u64, z_of_u. change (2 ^ (64 - 1)) with 9223372036854775808. change (Z.of_N (2 ^ 64)) with 18446744073709551616%Z.
  destruct (N.ltb_spec n 9223372036854775808); lia. Qed.
Lemma z_u64_z z : (-9223372036854775808 <= z < 9223372036854775808)%Z -> z_of_u64 (u64_of_z z) = z.
Proof. intros H. unfold u64_of_z, u_of_z, z_of_u64, z_of_u. change (2 ^ (64 - 1)) with 9223372036854775808. change (Z.of_N (2 ^ 64)) with 18446744073709551616%Z.
  destruct (N.ltb_spec (Z.to_N (z mod 18446744073709551616)) 9223372036854775808); lia. Qed.

(* slicing *)
Definition take (n : N) (r : list byte) : option (list byte * list byte) :=
  if blen r <? n then None else Some (firstn (N.to_nat n) r, skipn (N.to_nat n) r).

Lemma take_app (s rest : list byte) : take (blen s) (s ++ rest) = Some (s, rest).
Proof.
  unfold take. rewrite blen_app. destruct (N.ltb_spec (blen s + blen rest) (blen s)); [lia|].
  unfold blen. rewrite Nnat.Nat2N.id. rewrite firstn_app, skipn_app, firstn_all, skipn_all, Nat.sub_diag.
  cbn. now rewrite app_nil_r.
Qed.

Lemma take_some n r s r3 : take n r = Some (s, r3) -> r = s ++ r3 /\ blen s = n.
Proof.
  unfold take, blen. destruct (N.ltb_spec (N.of_nat (length r)) n); [discriminate|].
  intros E. inversion E; subst. split; [symmetry; apply firstn_skipn|].
  rewrite firstn_length. lia.
Qed.

Lemma take_none n r : take n r = None -> blen r < n.
Proof. unfold take. destruct (N.ltb_spec (blen r) n); [auto|discriminate]. Qed.

Lemma skip_split n (r : list byte) : n <= blen r -> exists padb, r = padb ++ skipn (N.to_nat n) r /\ blen padb = n.
Proof. unfold blen. intros H. exists (firstn (N.to_nat n) r). split; [symmetry; apply firstn_skipn|]. rewrite firstn_length. lia. Qed.

Lemma firstn_app_exact (a b : list byte) n : length a = n -> firstn n (a ++ b) = a.
Proof. intros <-. rewrite firstn_app, firstn_all, Nat.sub_diag. cbn. apply app_nil_r. Qed.
Lemma skipn_app_exact (a b : list byte) n : length a = n -> skipn n (a ++ b) = b.
Proof. intros <-. rewrite skipn_app, skipn_all, Nat.sub_diag. reflexivity. Qed.
Lemma app_inj_len (a a' b b' : list byte) : length a = length a' -> a ++ b = a' ++ b' -> a = a' /\ b = b'.
Proof.
  revert a'. induction a as [|x a IH]; intros [|y a'] Hl H; try discriminate; [auto|].
  cbn in H. inversion H; subst. destruct (IH a') as [-> ->]; auto.
Qed.

Definition zeros (n : N) : list byte := repeat x00 (N.to_nat n).
Lemma blen_zeros n : blen (zeros n) = n.
Proof. unfold blen, zeros. rewrite repeat_length. lia. Qed.

Lemma skipn_blen_app (a rest : list byte) n : blen a = n -> skipn (N.to_nat n) (a ++ rest) = rest.
Proof.
  unfold blen. intros H. rewrite skipn_app. replace (N.to_nat n) with (length a) by lia.
  rewrite skipn_all, Nat.sub_diag. reflexivity.
Qed.

(* padding to a 4-octet boundary (RFC 6733 section 4.1) *)
Definition pad4 (n : N) : N := (4 - n mod 4) mod 4.
Lemma pad4_lt n : pad4 n < 4. Proof. unfold pad4. lia. Qed.
Lemma pad4_aligned n : (n + pad4 n) mod 4 = 0. Proof. unfold pad4. lia. Qed.
