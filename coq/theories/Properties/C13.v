(* C13: TLS settings are honoured exactly.  Model: Model/Tls.v (the TLS library is an oracle:
   accepts iff trusted chain AND the name it was given is one of the certificate's names).
   Proofs: Proofs/TlsFacts.v *)
Require Import DV.Base.Bytes DV.Spec.Wire DV.Model.Tls DV.Proofs.TlsFacts.

Theorem C13_domain_is_host : forall host port,
  no_colon port -> (forall r, host <> lbr :: r) -> domain_of (host ++ colon :: port) = host.
Proof. exact domain_is_host. Qed.
Print Assumptions C13_domain_is_host.

Theorem C13_domain_is_bracketed : forall v6 port, no_rbr v6 -> domain_of (lbr :: v6 ++ rbr :: colon :: port) = v6.
Proof. exact domain_is_bracketed. Qed.
Print Assumptions C13_domain_is_bracketed.

Theorem C13_domain_no_port : forall host, no_colon host -> (forall r, host <> lbr :: r) -> domain_of host = host.
Proof. exact domain_no_port. Qed.
Print Assumptions C13_domain_no_port.

(* the full finite table {client TLS} x {verify} x {server plain/TLS} x {certificate} x {host name / IP literal}, for every port *)
Theorem C13_table : forall port x, no_colon port -> model_outcome domain_of port x = spec_outcome x.
Proof. exact table_agrees. Qed.
Print Assumptions C13_table.

Theorem C13_table_is_complete : forall x, In x all_cells.
Proof. exact all_cells_complete. Qed.
Print Assumptions C13_table_is_complete.

Theorem C13_table_check :
  forallb (fun x => outcome_eqb (model_outcome domain_of [x33;x38;x36;x38] x) (spec_outcome x)) all_cells = true.
Proof. exact table_check_3868. Qed.
Print Assumptions C13_table_check.

Theorem C13_legacy_refuted : forall port,
  exists x, c_tls x = true /\ c_verify x = true /\ c_srv x = SrvTls /\ c_cert x = CertMatch /\
            spec_outcome x = OTls /\ model_outcome domain_legacy port x = ORefused.
Proof. exact table_legacy_refuted. Qed.
Print Assumptions C13_legacy_refuted.

Theorem C13_legacy_name_never_the_host : forall host port, domain_legacy (host ++ colon :: port) <> host.
Proof. exact domain_legacy_refuted. Qed.
Print Assumptions C13_legacy_name_never_the_host.
