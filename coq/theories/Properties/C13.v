(* C13: TLS settings are honoured exactly.  Model: Model/Tls.v (the TLS library is an oracle:
   accepts iff trusted chain AND the name it was given is one of the certificate's names).
   Proofs: Proofs/TlsFacts.v *)
Require Import DV.Base.Bytes DV.Spec.Wire DV.Model.Tls DV.Proofs.TlsFacts.

Theorem C13_domain_is_host : forall host port,
  no_colon port -> (forall r, host <> lbr :: r) -> domain_of (host ++ colon :: port) = host.
Proof. exact domain_is_host. Qed.
Print Assumptions C13_domain_is_host.

Theorem C13_domain_is_bracketed : forall v6 port, no_rbr v6 -> domain_of (lbr :: v6 ++ rbr :: colon :: port) = v6.
Proof. exact domain_is_bracketed. Qed.
Print Assumptions C13_domain_is_bracketed.

Theorem C13_domain_no_port : forall host, no_colon host -> (forall r, host <> lbr :: r) -> domain_of host = host.
Proof. exact domain_no_port. Qed.
Print Assumptions C13_domain_no_port.

(* the full finite table {client TLS} x {verify} x {server plain/TLS} x {certificate} x {host name / IP literal}, for every port *)
Theorem C13_table : forall port x, no_colon port -> model_outcome domain_of port x = spec_outcome x.
Proof. exact table_agrees. Qed.
Print Assumptions C13_table.

Theorem C13_table_is_complete : forall x, In x all_cells.
Proof. exact all_cells_complete. Qed.
Print Assumptions C13_table_is_complete.

Theorem C13_table_check :
  forallb (fun x => outcome_eqb (model_outcome domain_of [x33;x38;x36;x38] x) (spec_outcome x)) all_cells = true.
Proof. exact table_check_3868. Qed.
Print Assumptions C13_table_check.

Theorem C13_legacy_refuted : forall port,
  exists x, c_tls x = true /\ c_verify x = true /\ c_srv x = SrvTls /\ c_cert x = CertMatch /\
            spec_outcome x = OTls /\ model_outcome domain_legacy port x = ORefused.
Proof. exact table_legacy_refuted. Qed.
Print Assumptions C13_legacy_refuted.

Theorem C13_legacy_name_never_the_host : forall host port, domain_legacy (host ++ colon :: port) <> host.
Proof. exact domain_legacy_refuted. Qed.
Print Assumptions C13_legacy_name_never_the_host.

(* the complete characterisation of the name, for EVERY address string (no shape hypothesis): either the address is bracketed
   and the name is the bracket's content, or it is not and the name is the text before the last colon, or there is no colon
   and the name is the address *)
Theorem C13_domain_complete : forall addr,
  (exists v6 r, addr = lbr :: v6 ++ rbr :: r /\ no_rbr v6 /\ domain_of addr = v6)
  \/ (~ bracketed addr /\
      ((exists h p, addr = h ++ colon :: p /\ no_colon p /\ domain_of addr = h)
       \/ (no_colon addr /\ domain_of addr = addr))).
Proof. exact domain_complete. Qed.
Print Assumptions C13_domain_complete.

Theorem C13_domain_is_substring : forall addr, exists pre post, addr = pre ++ domain_of addr ++ post.
Proof. exact domain_is_substring. Qed.
Print Assumptions C13_domain_is_substring.

Theorem C13_domain_unclosed_bracket : forall h port,
  no_rbr (h ++ colon :: port) -> no_colon port -> domain_of (lbr :: h ++ colon :: port) = lbr :: h.
Proof. exact domain_unclosed_bracket. Qed.
Print Assumptions C13_domain_unclosed_bracket.

Theorem C13_domain_drops_port : forall addr h p,
  ~ bracketed addr -> addr = h ++ colon :: p -> no_colon p -> domain_of addr = h.
Proof. exact domain_drops_port. Qed.
Print Assumptions C13_domain_drops_port.

(* non-vacuity: one address of each shape, evaluated ("[::1]:3868", "[ab:38", "::1:38", "ab") *)
Theorem C13_domain_shapes :
  domain_of [x5b;x3a;x3a;x31;x5d;x3a;x33;x38;x36;x38] = [x3a;x3a;x31] /\
  domain_of [x5b;x61;x62;x3a;x33;x38] = [x5b;x61;x62] /\
  domain_of [x3a;x3a;x31;x3a;x33;x38] = [x3a;x3a;x31] /\
  domain_of [x61;x62] = [x61;x62].
Proof. exact domain_shapes. Qed.
Print Assumptions C13_domain_shapes.
