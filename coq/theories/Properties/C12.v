(* C12: every response future of the Diameter client completes (src/transport/client.rs).
   Model: Model/Client.v (`step` = the code after repair D10: the reader, when it stops, closes the
   table and drops every sender in it, and send_message on a closed table hands out a failed future;
   `step_legacy` = today's code, which does neither).  Proofs: Proofs/ClientFacts.v.
   See Properties/C11.v for the reading of events. *)
Require Import DV.Base.Bytes DV.Model.Client DV.Model.ClientMulti DV.Model.ClientObj DV.Proofs.ClientFacts DV.Proofs.ClientMultiFacts DV.Proofs.ClientObjFacts.

(* once the reader has stopped - for whatever reason - no future handed out so far is pending *)
Theorem C12_reader_stop_releases_all : forall es i,
  closed (run es) = true -> i < nw (run es) -> ws (run es) i <> WPending.
Proof. exact C12_reader_stop_releases_all_lemma. Qed.
Print Assumptions C12_reader_stop_releases_all.

(* a send after the reader has stopped yields a future that has already failed *)
Theorem C12_send_after_stop_fails : forall s h, closed s = true ->
  ws (step s (Register h)) (nw s) = WDropped /\ nw (step s (Register h)) = S (nw s).
Proof. exact send_after_stop_fails. Qed.
Print Assumptions C12_send_after_stop_fails.

(* a waiter superseded by a newer request with the same id fails *)
Theorem C12_superseded_fails : forall s h i, Inv s -> closed s = false -> In (h, i) (table s) ->
  ws (step s (Register h)) i = WDropped.
Proof. exact superseded_fails. Qed.
Print Assumptions C12_superseded_fails.

(* the hypothesis Inv of the previous theorem holds in every reachable state *)
Theorem C12_inv_reachable : forall es, Inv (run es).
Proof. exact inv_run. Qed.
Print Assumptions C12_inv_reachable.

(* EOF / reset / undecodable input stops the reader ... *)
Theorem C12_bad_input_stops : forall s q, closed s = false -> inq s = IBad :: q ->
  closed (step s ReaderStep) = true.
Proof. exact bad_input_stops. Qed.
Print Assumptions C12_bad_input_stops.

(* ... and so does an answer that matches no request *)
Theorem C12_unmatched_stops : forall s f q, closed s = false -> inq s = IFrame f :: q ->
  lookup (table s) (hop f) = None -> closed (step s ReaderStep) = true.
Proof. exact unmatched_stops. Qed.
Print Assumptions C12_unmatched_stops.

(* in both cases nobody is pending after that reader step *)
Theorem C12_bad_input_releases_all : forall es q i, closed (run es) = false -> inq (run es) = IBad :: q ->
  i < nw (run (es ++ [ReaderStep])) -> ws (run (es ++ [ReaderStep])) i <> WPending.
Proof. exact bad_input_releases_all. Qed.
Print Assumptions C12_bad_input_releases_all.

Theorem C12_unmatched_releases_all : forall es f q i, closed (run es) = false -> inq (run es) = IFrame f :: q ->
  lookup (table (run es)) (hop f) = None ->
  i < nw (run (es ++ [ReaderStep])) -> ws (run (es ++ [ReaderStep])) i <> WPending.
Proof. exact unmatched_releases_all. Qed.
Print Assumptions C12_unmatched_releases_all.

(* ... and so does an answer for a request whose Receiver no longer exists (future dropped while pending,
   or send_message failed after registering): sender.send fails and ends the reader loop *)
Theorem C12_dropped_receiver_stops : forall s f q i, closed s = false -> inq s = IFrame f :: q ->
  lookup (table s) (hop f) = Some i -> gone s i = true -> closed (step s ReaderStep) = true.
Proof. exact abandoned_answer_stops_reader. Qed.
Print Assumptions C12_dropped_receiver_stops.

Theorem C12_dropped_receiver_releases_all : forall es f q i j, closed (run es) = false -> inq (run es) = IFrame f :: q ->
  lookup (table (run es)) (hop f) = Some i -> gone (run es) i = true ->
  j < nw (run (es ++ [ReaderStep])) -> ws (run (es ++ [ReaderStep])) j <> WPending.
Proof. exact abandoned_answer_releases_all. Qed.
Print Assumptions C12_dropped_receiver_releases_all.

(* completion: if the peer has cut the connection at some point and the reader has drained its input,
   every future handed out - before or after the cut - has completed (any interleaving, any peer) *)
Theorem C12_completion : forall es, In PeerBad es -> inq (run es) = [] ->
  forall i, i < nw (run es) -> ws (run es) i <> WPending.
Proof. exact C12_completion_lemma. Qed.
Print Assumptions C12_completion.

(* "with the answer if the peer sends one, otherwise with an error": distinct ids, register-before-
   write and a causal peer up to the moment the peer cuts the connection; then the reader runs until
   its input is drained.  Every future has completed: with the answer carrying its own id if the peer
   emitted one before the cut, with an error otherwise - and only otherwise. *)
Theorem C12_cut_outcomes : forall es n,
  all_ok es init ->
  let s := run (es ++ PeerBad :: repeat ReaderStep n) in
  inq s = [] ->
  closed s = true /\
  forall i, i < nw s ->
    (exists f, ws s i = WGot f /\ hop f = whop s i /\ fid f < nsent s /\ senth s (fid f) = hop f)
    \/ (ws s i = WDropped /\ forall a, a < nsent s -> senth s a <> whop s i).
Proof. exact C12_cut_outcomes_lemma. Qed.
Print Assumptions C12_cut_outcomes.

(* the hypothesis `inq s = []` of the previous theorem is reached: the reader drains its input *)
Theorem C12_cut_outcomes_drains : forall es, all_ok es init ->
  exists n, inq (run (es ++ PeerBad :: repeat ReaderStep n)) = [].
Proof. exact C12_cut_outcomes_drains. Qed.
Print Assumptions C12_cut_outcomes_drains.

(* a stopped reader stays stopped *)
Theorem C12_closed_is_final : forall es s, closed s = true -> closed (fold_left step es s) = true.
Proof. exact closed_fold. Qed.
Print Assumptions C12_closed_is_final.

(* today's code does not have the property: the reader has returned and a future is still pending *)
Theorem C12_legacy_refuted :
  exists es i, closed (run_legacy es) = true /\ i < nw (run_legacy es) /\ ws (run_legacy es) i = WPending.
Proof. exact C12_legacy_refuted_lemma. Qed.
Print Assumptions C12_legacy_refuted.

(* today's code: a send after the reader has returned yields a future that stays pending whatever the
   peer, the wire and the reader do afterwards (every continuation without a further send) *)
Theorem C12_legacy_late_send_hangs : forall s h es', closed s = true -> Forall not_register es' ->
  let s' := fold_left step_legacy es' (step_legacy s (Register h)) in
  nw s' = S (nw s) /\ ws s' (nw s) = WPending.
Proof. exact C12_legacy_late_send_hangs_lemma. Qed.
Print Assumptions C12_legacy_late_send_hangs.

(* non-vacuity: request 2 answered before the cut, request 1 never; both futures complete *)
Theorem C12_completion_example :
  In PeerBad sched_cut /\ inq (run sched_cut) = [] /\ nw (run sched_cut) = 2 /\
  outcomes (run sched_cut) = [WDropped; WGot {| hop := 2%N; fid := 0 |}].
Proof. exact C12_completion_nonvacuous. Qed.
Print Assumptions C12_completion_example.

(* non-vacuity for C12_cut_outcomes: three requests, 3 answered and delivered, 2 answered and still
   queued at the cut, 1 never answered *)
Theorem C12_cut_outcomes_example :
  let es := [Register 1%N; WireOut 1%N; Register 2%N; WireOut 2%N; Register 3%N; WireOut 3%N; Peer 3%N; ReaderStep; Peer 2%N] in
  all_ok es init /\ inq (run (es ++ PeerBad :: repeat ReaderStep 2)) = [] /\
  outcomes (run (es ++ PeerBad :: repeat ReaderStep 2)) =
    [WDropped; WGot {| hop := 2%N; fid := 1 |}; WGot {| hop := 3%N; fid := 0 |}].
Proof. exact C12_cut_outcomes_nonvacuous. Qed.
Print Assumptions C12_cut_outcomes_example.

(* several connections of one client object (Model/ClientMulti.v): release on stop holds per connection ... *)
Theorem C12_release_per_connection : forall es c i, closed (conn (mrun es) c) = true -> i < nw (conn (mrun es) c) ->
  ws (conn (mrun es) c) i <> WPending.
Proof. exact multi_release. Qed.
Print Assumptions C12_release_per_connection.

(* ... a send after the CURRENT connection's reader has stopped fails, whatever earlier connections did ... *)
Theorem C12_send_after_stop_current_connection : forall s h, cur s <> 0 -> closed (conn s (cur s)) = true ->
  let s' := mstep s (MSend (Register h)) in
  ws (conn s' (cur s)) (nw (conn s (cur s))) = WDropped.
Proof. exact multi_send_after_stop. Qed.
Print Assumptions C12_send_after_stop_current_connection.

(* ... and a connect() that fails changes nothing: in particular not which closed flag send_message consults *)
Theorem C12_failed_connect_changes_nothing : forall s, mstep s MConnectFail = s.
Proof. exact connect_fail_changes_nothing. Qed.
Print Assumptions C12_failed_connect_changes_nothing.

Theorem C12_other_connection_changes_nothing : forall s c c' e, c' <> c -> conn (mstep s (MPeer c' e)) c = conn s c.
Proof. exact multi_isolation. Qed.
Print Assumptions C12_other_connection_changes_nothing.

(* The client object field by field (Model/ClientObj.v: writer, waiter table + closed flag as two pointers, connect() as
   success / failure before a stream exists / failure after it - a TLS handshake that fails).  After repair D13 the
   writer and the table always belong to the same connection, over every history ... *)
Theorem C12_writer_and_table_move_together : forall es, owr (orun es) = otb (orun es) /\ otb (orun es) = onc (orun es).
Proof. exact writer_and_table_move_together. Qed.
Print Assumptions C12_writer_and_table_move_together.

(* ... so the object IS the product of single-connection machines (no renumbering: the identity on connections) ... *)
Theorem C12_object_refines_product : forall es,
  oconn (orun es) = conn (mrun (map omap es)) /\ owr (orun es) = cur (mrun (map omap es)).
Proof. exact object_refines_product. Qed.
Print Assumptions C12_object_refines_product.

Theorem C12_object_release : forall es c i, closed (oconn (orun es) c) = true -> i < nw (oconn (orun es) c) ->
  ws (oconn (orun es) c) i <> WPending.
Proof. exact object_release. Qed.
Print Assumptions C12_object_release.

(* ... and a connect() that fails, early or late, changes nothing at all *)
Theorem C12_failed_handshake_changes_nothing : forall s, ostep s OConnectFailEarly = s /\ ostep s OConnectFailLate = s.
Proof. exact failed_connect_changes_nothing. Qed.
Print Assumptions C12_failed_handshake_changes_nothing.

(* before D13: the harness scenario RECONN tlsfail as a history; requests 2 and 3 wait for ever *)
Theorem C12_failed_handshake_legacy_refuted :
  let s := orun_d13 sched_tlsfail in
  send_outcomes late_d13 sched_tlsfail = [WGot {| hop := 1%N; fid := 0 |}; WPending; WPending] /\
  owr s = 1 /\ otb s = 2 /\ closed (oconn s 1) = true /\ closed (oconn s 2) = false /\ inq (oconn s 2) = [].
Proof. exact d13_refuted. Qed.
Print Assumptions C12_failed_handshake_legacy_refuted.

Theorem C12_failed_handshake_repaired_example :
  send_outcomes late_ok sched_tlsfail = [WGot {| hop := 1%N; fid := 0 |}; WGot {| hop := 2%N; fid := 1 |}; WDropped].
Proof. exact d13_repaired. Qed.
Print Assumptions C12_failed_handshake_repaired_example.

Theorem C12_reconnect_scenarios :
  send_outcomes late_ok sched_overlap = [WDropped; WGot {| hop := 2%N; fid := 0 |}] /\
  send_outcomes late_ok sched_failed = [WGot {| hop := 1%N; fid := 0 |}; WDropped].
Proof. exact reconnect_scenarios. Qed.
Print Assumptions C12_reconnect_scenarios.
