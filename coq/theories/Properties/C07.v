(* C07: the announced length bounds what Codec::decode reads; it never panics. *)
Require Import DV.Base.Bytes DV.Spec.Wire DV.Model.Avp DV.Model.Message DV.Model.Stream
  DV.Proofs.StreamFacts.

(* ALL scripts whose first four deliverable octets are b0 :: be24 L *)
Theorem C07_announced_length : forall lim d script b0 L rest,
  bytes_of script = b0 :: be24 L ++ rest -> (L < 16777216)%N ->
  let (r, s') := codec_decode lim d script in
  r <> DPanic
  /\ ((1048576 < L)%N -> r = DErr /\ consumed script s' = 4%N)
  /\ ((L < 20)%N -> r = DErr /\ consumed script s' = 4%N)
  /\ (consumed script s' <= N.max L 4)%N.
Proof. exact C07_lemma. Qed.
Print Assumptions C07_announced_length.

Theorem codec_decode_never_panics : forall lim d s, fst (codec_decode lim d s) <> DPanic.
Proof. exact codec_decode_never_panics_lemma. Qed.
Print Assumptions codec_decode_never_panics.

(* the code as it is today does panic *)
Theorem C07_legacy_refuted : forall lim d,
  exists script, fst (codec_decode_legacy lim d script) = DPanic.
Proof. exact C07_legacy_refuted_lemma. Qed.
Print Assumptions C07_legacy_refuted.

(* ... and for 4 <= L < 20 it reads L-4 further octets before failing *)
Theorem C07_legacy_short : forall lim d s b0 L rest,
  bytes_of s = b0 :: be24 L ++ rest -> (4 <= L < 20)%N -> (N.to_nat (L - 4) <= length rest)%nat ->
  exists s', codec_decode_legacy lim d s = (DErr, s') /\ consumed s s' = L.
Proof. exact codec_decode_legacy_short. Qed.
Print Assumptions C07_legacy_short.

(* accounting over the WHOLE script (every octet of every chunk, also behind faults):
   one decode call takes at most max(L, 4) octets off the stream, and never more than 1 MiB *)
Theorem C07_consumed_all : forall lim d s b0 L rest,
  bytes_of s = b0 :: be24 L ++ rest -> (L < 16777216)%N ->
  (blen (all_bytes s) <= blen (all_bytes (snd (codec_decode lim d s))) + N.max L 4)%N.
Proof. exact C07_consumed_all_lemma. Qed.
Print Assumptions C07_consumed_all.

Theorem C07_at_most_1MiB : forall lim d s r s', codec_decode lim d s = (r, s') ->
  (blen (all_bytes s') <= blen (all_bytes s))%N
  /\ (blen (all_bytes s) <= blen (all_bytes s') + 1048576)%N.
Proof. exact codec_decode_consumes. Qed.
Print Assumptions C07_at_most_1MiB.
