(* C03: decoding is faithful.  The independent RFC 6733 reader is the declarative relation
   [wire_msg] of Spec/Wire.v (it is functional: the octets determine the tree).
   Proofs: Proofs/DecSound.v, DecComplete.v, DecExtra.v *)
Require Import DV.Base.Bytes DV.Base.Utf8 DV.Model.Leaf DV.Spec.Wire DV.Model.Avp DV.Model.Message
  DV.Proofs.AvpFacts DV.Proofs.DecTotal DV.Proofs.DecSound DV.Proofs.DecComplete DV.Proofs.BuildFacts DV.Proofs.DecExtra DV.Proofs.ChkFacts.
Local Open Scope N_scope.

(* [msg_nomm m]: m contains no fixed-size value whose declared length disagrees with its size -
   the recorded finding KF-1; see C03_known_class_witness *)
Theorem C03_accepted_means_what_bytes_say : forall lim d bs m,
  dec_msg lim d bs = Ok m -> complete bs -> msg_nomm m ->
  wire_msg d (abs_msg m) bs /\ msg_consistent m /\ (msg_depth m <= lim)%nat.
Proof. exact dec_msg_sound. Qed.
Print Assumptions C03_accepted_means_what_bytes_say.

Theorem C03_reader_is_functional : forall d sm1 sm2 bs, wire_msg d sm1 bs -> wire_msg d sm2 bs -> sm1 = sm2.
Proof. exact wire_msg_functional. Qed.
Print Assumptions C03_reader_is_functional.

(* re-encoding: same tree, same length, normalised padding octets / reserved bits only
   (both octet strings are wire images of the one tree) *)
Theorem C03_reencode : forall lim d bs m,
  dec_msg lim d bs = Ok m -> complete bs -> msg_nomm m ->
  wire_msg d (abs_msg m) bs /\
  enc_msg m = Ok (spec_msg (abs_msg m)) /\
  wire_msg d (abs_msg m) (spec_msg (abs_msg m)) /\
  blen (spec_msg (abs_msg m)) = blen bs.
Proof. exact accepted_reencodes. Qed.
Print Assumptions C03_reencode.

Theorem C03_inconsistent_rejected : forall lim d bs,
  complete bs -> (forall sm, ~ wire_msg d sm bs) ->
  match dec_msg lim d bs with
  | Ok m => ~ msg_nomm m
  | Err => True
  | Panic | OutOfFuel => False
  end.
Proof. exact inconsistent_rejected. Qed.
Print Assumptions C03_inconsistent_rejected.

(* every well-formed frame with a known command, application and AVPs is accepted, whatever its
   padding octets and reserved bits contain (they are existentially free in [wire_msg]) *)
Theorem C03_wellformed_accepted : forall lim d sm bs,
  wire_msg d sm bs -> known_cmd (s_cmd sm) = true -> known_app (s_app sm) = true ->
  (smsg_depth sm <= lim)%nat ->
  exists m, dec_msg lim d bs = Ok m /\ abs_msg m = sm /\ msg_consistent m /\ msg_nomm m.
Proof. exact dec_msg_complete. Qed.
Print Assumptions C03_wellformed_accepted.

(* the known class is real: AVP 415 (Unsigned32) declaring 16 octets is accepted and re-encodes
   to a different number of octets *)
Theorem C03_known_class_witness :
  exists m bs', dec_msg 16 kf1_dict kf1_frame = Ok m /\ complete kf1_frame /\ ~ msg_nomm m /\
                enc_msg m = Ok bs' /\ blen bs' <> blen kf1_frame.
Proof. exact known_class_witness. Qed.
Print Assumptions C03_known_class_witness.

(* the executable checker used as test oracle by the correspondence check IS the relation *)
Theorem C03_oracle_is_the_relation : forall d m bs, chk_msg d m bs = true <-> wire_msg d m bs.
Proof. exact chk_msg_iff_strong. Qed.
Print Assumptions C03_oracle_is_the_relation.

Theorem C03_oracle_unique : forall d m1 m2 bs, chk_msg d m1 bs = true -> chk_msg d m2 bs = true -> m1 = m2.
Proof. exact chk_msg_unique_strong. Qed.
Print Assumptions C03_oracle_unique.
