(* C02: encode then decode returns the same message.  Proofs: Proofs/BuildFacts.v, DecComplete.v *)
Require Import DV.Base.Bytes DV.Base.Utf8 DV.Model.Leaf DV.Spec.Wire DV.Model.Avp DV.Model.Message
  DV.Model.Dict DV.Model.Build DV.Proofs.AvpFacts DV.Proofs.DecSound DV.Proofs.DecComplete DV.Proofs.BuildFacts.
Local Open Scope N_scope.

(* equality of the model record is equality of header fields, AVP order, code, vendor id, flags,
   data type and value (floats as bit patterns, recursively through groups) and of the stored
   lengths and padding: every observable the property lists.  [lim] is the decoder's nesting
   limit, measured from the implementation on every run and checked to be at least 16. *)
Theorem C02_roundtrip : forall lim d m bs,
  good m -> msg_wireb m = true -> typed_list d (m_avps m) ->
  known_cmd (m_cmd m) = true -> known_app (m_app m) = true ->
  (depth_list (m_avps m) <= lim)%nat ->
  enc_msg m = Ok bs -> dec_msg lim d bs = Ok m.
Proof. exact roundtrip. Qed.
Print Assumptions C02_roundtrip.

(* every wire image of a tree (any padding octets, any reserved flag bits) decodes to that tree *)
Theorem C02_any_image_decodes : forall lim d sm bs,
  wire_msg d sm bs -> known_cmd (s_cmd sm) = true -> known_app (s_app sm) = true ->
  (smsg_depth sm <= lim)%nat ->
  exists m, dec_msg lim d bs = Ok m /\ abs_msg m = sm /\ msg_consistent m /\ msg_nomm m.
Proof. exact dec_msg_complete. Qed.
Print Assumptions C02_any_image_decodes.

Theorem C02_stored_lengths_determined : forall a a', consistent a -> consistent a' -> abs a = abs a' -> a = a'.
Proof. exact abs_inj. Qed.
Print Assumptions C02_stored_lengths_determined.
