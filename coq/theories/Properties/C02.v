(* C02: encode then decode returns the same message.  Proofs: Proofs/BuildFacts.v, DecComplete.v *)
Require Import DV.Base.Bytes DV.Base.Utf8 DV.Model.Leaf DV.Spec.Wire DV.Model.Avp DV.Model.Message
  DV.Model.Dict DV.Model.Build DV.Proofs.AvpFacts DV.Proofs.DecSound DV.Proofs.DecComplete DV.Proofs.BuildFacts DV.Proofs.HeaderFacts.
Local Open Scope N_scope.

(* equality of the model record is equality of header fields, AVP order, code, vendor id, flags,
   data type and value (floats as bit patterns, recursively through groups) and of the stored
   lengths and padding: every observable the property lists.  [lim] is the decoder's nesting
   limit, measured from the implementation on every run and checked to be at least 16. *)
Theorem C02_roundtrip : forall lim d m bs,
  good m -> msg_wireb m = true -> typed_list d (m_avps m) ->
  known_cmd (m_cmd m) = true -> known_app (m_app m) = true ->
  (depth_list (m_avps m) <= lim)%nat ->
  enc_msg m = Ok bs -> dec_msg lim d bs = Ok m.
Proof. exact roundtrip. Qed.
Print Assumptions C02_roundtrip.

(* every wire image of a tree (any padding octets, any reserved flag bits) decodes to that tree *)
Theorem C02_any_image_decodes : forall lim d sm bs,
  wire_msg d sm bs -> known_cmd (s_cmd sm) = true -> known_app (s_app sm) = true ->
  (smsg_depth sm <= lim)%nat ->
  exists m, dec_msg lim d bs = Ok m /\ abs_msg m = sm /\ msg_consistent m /\ msg_nomm m.
Proof. exact dec_msg_complete. Qed.
Print Assumptions C02_any_image_decodes.

Theorem C02_stored_lengths_determined : forall a a', consistent a -> consistent a' -> abs a = abs a' -> a = a'.
Proof. exact abs_inj. Qed.
Print Assumptions C02_stored_lengths_determined.

(* outside the round-trip domain too (AVPs the dictionary types differently, values the wire cannot carry exactly, any depth): when a
   message encodes and its encoding decodes, the HEADER comes back as it was - version, length, flags, command, application and both
   identifiers; each field under the one hypothesis that it fits its width (which the Rust types guarantee) *)
Theorem C02_header_roundtrip : forall lim d a bs a',
  enc_msg a = Ok bs -> dec_msg lim d bs = Ok a' ->
  (m_ver a < 256 -> m_ver a' = m_ver a) /\ (m_len a' = m_len a) /\ (m_flags a < 256 -> m_flags a' = m_flags a) /\
  (m_cmd a < 16777216 -> m_cmd a' = m_cmd a) /\ (m_app a < 4294967296 -> m_app a' = m_app a) /\
  (m_hbh a < 4294967296 -> m_hbh a' = m_hbh a) /\ (m_e2e a < 4294967296 -> m_e2e a' = m_e2e a).
Proof. exact header_survives. Qed.
Print Assumptions C02_header_roundtrip.
