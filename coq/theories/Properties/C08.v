(* C08: the server calls the handler exactly once per request, in order, and writes the answers
   in order; it stops at the first bad request. *)
Require Import DV.Base.Bytes DV.Spec.Wire DV.Model.Avp DV.Model.Message DV.Model.Stream
  DV.Model.Server DV.Proofs.StreamFacts DV.Proofs.ServerFacts.

Theorem serve_total : forall h lim d rs ws, exists o, serve h lim d rs ws = Some o.
Proof. exact serve_total_lemma. Qed.
Print Assumptions serve_total.

Theorem serve_never_panics : forall h lim d rs ws o,
  serve h lim d rs ws = Some o -> so_res o <> SPanicked.
Proof. exact serve_never_panics_lemma. Qed.
Print Assumptions serve_never_panics.

Theorem C08_exactly_once_in_order : forall h lim d reqs ms bss rs ws,
  fault_free rs = true -> bytes_of rs = concat reqs -> Forall good_frame reqs ->
  Forall2 (fun f m => dec_msg lim d f = Ok m) reqs ms ->
  answer_octets h [] ms = Some bss -> accepting ws = true ->
  exists o, serve h lim d rs ws = Some o
    /\ so_calls o = ms /\ so_written o = concat bss /\ so_res o = SClosed.
Proof. exact C08_exactly_once_lemma. Qed.
Print Assumptions C08_exactly_once_in_order.

(* ALL read scripts delivering [concat pre ++ f ++ tail]; [tail] is whatever follows *)
Theorem C08_stops_at_first_bad_decode : forall h lim d pre ms bss f tail rs ws,
  bytes_of rs = concat pre ++ f ++ tail -> Forall good_frame pre ->
  Forall2 (fun f m => dec_msg lim d f = Ok m) pre ms ->
  answer_octets h [] ms = Some bss -> accepting ws = true ->
  good_frame f -> dec_msg lim d f = Err ->
  exists o, serve h lim d rs ws = Some o
    /\ so_calls o = ms /\ so_written o = concat bss /\ so_res o = SFailed
    /\ bytes_of (so_rs o) = tail.
Proof. exact C08_stops_decode_lemma. Qed.
Print Assumptions C08_stops_at_first_bad_decode.

Theorem C08_stops_at_first_bad_handler : forall h lim d pre ms bss f m tail rs ws,
  bytes_of rs = concat pre ++ f ++ tail -> Forall good_frame pre ->
  Forall2 (fun f m => dec_msg lim d f = Ok m) pre ms ->
  answer_octets h [] ms = Some bss -> accepting ws = true ->
  good_frame f -> dec_msg lim d f = Ok m -> h ms m = None ->
  exists o, serve h lim d rs ws = Some o
    /\ so_calls o = ms ++ [m] /\ so_written o = concat bss /\ so_res o = SFailed
    /\ bytes_of (so_rs o) = tail.
Proof. exact C08_stops_handler_lemma. Qed.
Print Assumptions C08_stops_at_first_bad_handler.

Theorem C08_stops_at_first_bad_encode : forall h lim d pre ms bss f m a tail rs ws,
  bytes_of rs = concat pre ++ f ++ tail -> Forall good_frame pre ->
  Forall2 (fun f m => dec_msg lim d f = Ok m) pre ms ->
  answer_octets h [] ms = Some bss -> accepting ws = true ->
  good_frame f -> dec_msg lim d f = Ok m -> h ms m = Some a -> enc_msg a = Err ->
  exists o, serve h lim d rs ws = Some o
    /\ so_calls o = ms ++ [m] /\ so_written o = concat bss /\ so_res o = SFailed
    /\ bytes_of (so_rs o) = tail.
Proof. exact C08_stops_encode_lemma. Qed.
Print Assumptions C08_stops_at_first_bad_encode.

Theorem C08_stops_at_first_bad_framing : forall h lim d pre ms bss b0 L tail rs ws,
  bytes_of rs = concat pre ++ b0 :: be24 L ++ tail -> Forall good_frame pre ->
  Forall2 (fun f m => dec_msg lim d f = Ok m) pre ms ->
  answer_octets h [] ms = Some bss -> accepting ws = true ->
  (L < 16777216)%N -> ((L < 20)%N \/ (1048576 < L)%N) ->
  exists o, serve h lim d rs ws = Some o
    /\ so_calls o = ms /\ so_written o = concat bss /\ so_res o = SFailed.
Proof. exact C08_stops_framing_lemma. Qed.
Print Assumptions C08_stops_at_first_bad_framing.
