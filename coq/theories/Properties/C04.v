(* C04: the decoder is total.  Proofs: Proofs/DecTotal.v, DecExtra.v *)
Require Import DV.Base.Bytes DV.Base.Utf8 DV.Model.Leaf DV.Spec.Wire DV.Model.Avp DV.Model.Message
  DV.Proofs.DecTotal DV.Proofs.DecExtra.
Local Open Scope N_scope.

(* no arithmetic / index trap (Panic) and no fuel exhaustion with fuel = length of the input + 2:
   at most linearly many decoder calls - for every octet string, dictionary and nesting limit *)
Theorem C04_never_panics : forall lim d bs,
  match dec_msg lim d bs with Panic | OutOfFuel => False | _ => True end.
Proof. exact dec_msg_total. Qed.
Print Assumptions C04_never_panics.

(* recursion depth is bounded by the nesting limit, whatever the input *)
Theorem C04_depth_bounded : forall lim d bs m, dec_msg lim d bs = Ok m -> (depth_list (m_avps m) <= lim)%nat.
Proof. exact dec_msg_depth. Qed.
Print Assumptions C04_depth_bounded.

(* the result does not depend on the fuel once it is enough *)
Theorem C04_fuel_irrelevant : forall d f f' lim len off r res,
  (f <= f')%nat -> dec_members f lim d len off r = res -> res <> OutOfFuel -> dec_members f' lim d len off r = res.
Proof. exact fuel_mono_members. Qed.
Print Assumptions C04_fuel_irrelevant.

(* any message returned can be re-encoded: the encoder succeeds on it and never traps *)
Theorem C04_result_reencodes : forall lim d bs m, dec_msg lim d bs = Ok m -> exists bs', enc_msg m = Ok bs'.
Proof. exact dec_msg_reencodes. Qed.
Print Assumptions C04_result_reencodes.

Theorem C04_encoder_never_traps : forall m, match enc_msg m with Panic | OutOfFuel => False | _ => True end.
Proof. exact enc_msg_never_traps. Qed.
Print Assumptions C04_encoder_never_traps.
