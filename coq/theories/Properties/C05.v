(* C05: encoding never reports success for a frame it did not fully produce.
   Model: Model/IoWrite.v (std::io::Write contract: write / write_all, Interrupted retried,
   Ok(0) = WriteZero).  Proofs: Proofs/IoWriteFacts.v *)
Require Import DV.Base.Bytes DV.Model.Leaf DV.Spec.Wire DV.Model.Avp DV.Model.Message DV.Model.IoWrite
  DV.Proofs.IoWriteFacts.
Local Open Scope N_scope.

(* against a writer that accepts w_budget octets in total and then fails, with arbitrary
   per-call caps and arbitrary placement of Interrupted: whatever way a producer chops the
   octets into write_all calls, the outcome is (budget >= length, first budget octets) *)
Theorem C05_segmentation_irrelevant : forall chunks w,
  caps_pos w ->
  exists w', write_chunks w chunks =
             Some (blen (concat chunks) <=? w_budget w, firstn (N.to_nat (w_budget w)) (concat chunks), w')
             /\ caps_pos w'.
Proof. exact segmentation_irrelevant. Qed.
Print Assumptions C05_segmentation_irrelevant.

Theorem C05_encode_to : forall m w,
  caps_pos w ->
  enc_to m w =
    if msg_enc_ok m
    then Some (blen (enc_msg_raw m) <=? w_budget w, Some (firstn (N.to_nat (w_budget w)) (enc_msg_raw m)))
    else Some (false, None).
Proof. exact enc_to_spec. Qed.
Print Assumptions C05_encode_to.

Theorem C05_success_means_complete : forall m w acc,
  caps_pos w -> enc_to m w = Some (true, acc) ->
  enc_msg m = Ok (enc_msg_raw m) /\ acc = Some (enc_msg_raw m) /\ blen (enc_msg_raw m) <= w_budget w.
Proof. exact success_means_complete. Qed.
Print Assumptions C05_success_means_complete.

Theorem C05_fault_at_any_offset : forall m w bs,
  caps_pos w -> enc_msg m = Ok bs -> w_budget w < blen bs ->
  enc_to m w = Some (false, Some (firstn (N.to_nat (w_budget w)) bs)).
Proof. exact fault_at_any_offset. Qed.
Print Assumptions C05_fault_at_any_offset.

Theorem C05_short_writes_transparent : forall m w bs,
  caps_pos w -> enc_msg m = Ok bs -> blen bs <= w_budget w -> enc_to m w = Some (true, Some bs).
Proof. exact enough_budget_succeeds. Qed.
Print Assumptions C05_short_writes_transparent.

(* values the wire cannot carry *)
Theorem C05_unrepresentable : forall m w, msg_enc_ok m = false -> enc_to m w = Some (false, None) /\ enc_msg m = Err.
Proof. exact unrepresentable_fails. Qed.
Print Assumptions C05_unrepresentable.

Theorem C05_representable_msg : forall m,
  msg_enc_ok m = true <-> m_len m < 16777216 /\ Forall (fun x => enc_ok x = true) (m_avps m).
Proof. exact msg_enc_ok_spec. Qed.
Print Assumptions C05_representable_msg.

Theorem C05_representable_len : forall a, enc_ok a = true -> a_len a < 16777216.
Proof. exact enc_ok_len. Qed.
Print Assumptions C05_representable_len.

Theorem C05_representable_time : forall c vd m p len pad t,
  enc_ok (MkAvp c vd m p len pad (VLeaf (LTime t))) = true -> (-2208988800 <= t <= 2085978495)%Z.
Proof. exact enc_ok_time. Qed.
Print Assumptions C05_representable_time.

Theorem C05_representable_members : forall c vd m p len pad ms,
  enc_ok (MkAvp c vd m p len pad (VGrp ms)) = true -> Forall (fun x => enc_ok x = true) ms.
Proof. exact enc_ok_members. Qed.
Print Assumptions C05_representable_members.
