(* C09: a connection cut on the read side or failing on the write side: what was handled and
   what was written. *)
Require Import DV.Base.Bytes DV.Spec.Wire DV.Model.Avp DV.Model.Message DV.Model.Stream
  DV.Model.Server DV.Proofs.StreamFacts DV.Proofs.ServerFacts.

(* the peer sends the first p octets of its pipelined requests, then end of file *)
Theorem C09_read_cut : forall h lim d reqs ms bss p rs ws,
  fault_free rs = true -> bytes_of rs = firstn p (concat reqs) -> Forall good_frame reqs ->
  Forall2 (fun f m => dec_msg lim d f = Ok m) reqs ms ->
  answer_octets h [] ms = Some bss -> accepting ws = true ->
  exists o, serve h lim d rs ws = Some o
    /\ so_res o = SClosed
    /\ so_calls o = firstn (whole_frames p reqs) ms
    /\ so_written o = concat (firstn (whole_frames p reqs) bss).
Proof. exact C09_read_cut_lemma. Qed.
Print Assumptions C09_read_cut.

(* ... then an io error *)
Theorem C09_read_cut_err : forall h lim d reqs ms bss p rs ws,
  err_cut rs = true -> bytes_of rs = firstn p (concat reqs) -> Forall good_frame reqs ->
  Forall2 (fun f m => dec_msg lim d f = Ok m) reqs ms ->
  answer_octets h [] ms = Some bss -> accepting ws = true ->
  exists o, serve h lim d rs ws = Some o
    /\ so_res o = SFailed
    /\ so_calls o = firstn (whole_frames p reqs) ms
    /\ so_written o = concat (firstn (whole_frames p reqs) bss).
Proof. exact C09_read_cut_err_lemma. Qed.
Print Assumptions C09_read_cut_err.

(* the writer accepts exactly q octets (one per poll, Pending entries anywhere) and then fails *)
Theorem C09_write_fault : forall h lim d reqs ms bss q rs ws,
  fault_free rs = true -> bytes_of rs = concat reqs -> Forall good_frame reqs ->
  Forall2 (fun f m => dec_msg lim d f = Ok m) reqs ms ->
  answer_octets h [] ms = Some bss -> wdribble ws = Some q ->
  exists o, serve h lim d rs ws = Some o
    /\ so_written o = firstn q (concat bss)
    /\ ((q < length (concat bss))%nat ->
        so_res o = SFailed /\ so_calls o = firstn (S (whole_frames q bss)) ms)
    /\ ((length (concat bss) <= q)%nat -> so_res o = SClosed /\ so_calls o = ms).
Proof. exact C09_write_fault_lemma. Qed.
Print Assumptions C09_write_fault.

(* ANY write script *)
Theorem C09_write_any : forall h lim d reqs ms bss rs ws,
  fault_free rs = true -> bytes_of rs = concat reqs -> Forall good_frame reqs ->
  Forall2 (fun f m => dec_msg lim d f = Ok m) reqs ms ->
  answer_octets h [] ms = Some bss ->
  exists o, serve h lim d rs ws = Some o
    /\ ((so_res o = SClosed /\ so_calls o = ms /\ so_written o = concat bss)
        \/ (exists k acc rest, so_res o = SFailed /\ (k < length ms)%nat
              /\ so_calls o = firstn (S k) ms
              /\ so_written o = concat (firstn k bss) ++ acc
              /\ nth k bss [] = acc ++ rest /\ rest <> [])).
Proof. exact C09_write_any_lemma. Qed.
Print Assumptions C09_write_any.

(* polls of ANY sizes accepting q octets in total, then a failure: the run fails once the
   answers exceed q and at most q octets are written (an accept larger than the rest of the
   current answer loses its surplus, so fewer than q octets may go out; C09_write_any gives
   the exact shape, C09_write_fault the exact count for one-octet polls) *)
Theorem C09_write_budget : forall h lim d reqs ms bss q rs ws,
  fault_free rs = true -> bytes_of rs = concat reqs -> Forall good_frame reqs ->
  Forall2 (fun f m => dec_msg lim d f = Ok m) reqs ms ->
  answer_octets h [] ms = Some bss -> wbudget ws = Some q -> (q < blen (concat bss))%N ->
  exists o, serve h lim d rs ws = Some o
    /\ so_res o = SFailed
    /\ exists n, so_written o = firstn n (concat bss) /\ (N.of_nat n <= q)%N.
Proof. exact C09_write_budget_lemma. Qed.
Print Assumptions C09_write_budget.
