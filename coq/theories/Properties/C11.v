(* C11: request/answer matching of the Diameter client (src/transport/client.rs: send_message,
   handle, process_decoded_msg, ResponseFuture).  Model: Model/Client.v; proofs: Proofs/ClientFacts.v.

   The state machine runs at await-point granularity.  An event list is one interleaving of
     Register h  (send_message inserted the waiter for hop-by-hop id h into msg_caches)
     WireOut h   (the first octet of request h reached the peer)
     Peer h      (the peer emitted a complete answer frame with hop-by-hop id h; every frame gets a
                  unique physical identity `fid`, `senth` records what was emitted)
     PeerBad     (the peer closed / reset / emitted undecodable octets)
     ReaderStep  (the reader task consumed the next item: deliver, or stop)
     Abandon i   (the Receiver of waiter i no longer exists: the caller dropped the ResponseFuture, or
                  send_message failed in its write after registering and returned Err)
   Answer bytes segmentation is below this granularity: Codec::decode hands the reader whole frames
   (C15/C16 cover the segmentation).

   Schedule guards used by C11_matching (ClientFacts.ok_ev, each evaluated in the state it fires in):
     Register h : forall i, i < nw s -> whop s i <> h          (distinct hop-by-hop ids)
     WireOut h  : exists i, i < nw s /\ whop s i = h           (program order: register, then write)
     Peer h     : In h (wired s) /\ forall a, a < nsent s -> senth s a <> h
                                                                (causal peer, one answer per id)
     PeerBad    : False                                         (connection not cut)
     ReaderStep : True
     Abandon i  : i < nw s /\ ws s i <> WPending                (a future is dropped only once it has completed)
   all_ok es s : every event of es satisfies its guard in the state reached before it.
   all_ok_wf   : the same without the guard on WireOut (write may precede register). *)
Require Import DV.Spec.Wire DV.Model.Avp DV.Model.Message DV.Model.Stream DV.Model.Server DV.Model.EndToEnd DV.Proofs.StreamFacts DV.Proofs.ServerFacts DV.Proofs.EndToEndFacts.
Require Import DV.Base.Bytes DV.Model.Client DV.Model.ClientMulti DV.Proofs.ClientFacts DV.Proofs.ClientMultiFacts.

(* For EVERY event list (any interleaving, adversarial peer, ids not assumed distinct): a future that
   completed with an answer got a frame with its own hop-by-hop id, that the peer really emitted,
   and that no other future got. *)
Theorem C11_safety : forall es i f, i < nw (run es) -> ws (run es) i = WGot f ->
  hop f = whop (run es) i /\ fid f < nsent (run es) /\ senth (run es) (fid f) = hop f /\
  (forall j g, j < nw (run es) -> ws (run es) j = WGot g -> fid g = fid f -> j = i).
Proof. exact C11_safety_lemma. Qed.
Print Assumptions C11_safety.

(* Distinct ids, register-before-write, causal peer: once every request has been answered and the
   reader has consumed every queued answer, every future holds the answer with its own id and the
   reader is still running - whatever the order of the answers and however sender, peer and reader
   interleaved (including an answer queued or consumed before send_message returned). *)
Theorem C11_matching : forall es,
  all_ok es init ->
  (forall f, ~ In (IFrame f) (inq (run es))) ->
  (forall i, i < nw (run es) -> exists a, a < nsent (run es) /\ senth (run es) a = whop (run es) i) ->
  forall i, i < nw (run es) ->
    exists f, ws (run es) i = WGot f /\ hop f = whop (run es) i /\ closed (run es) = false.
Proof. exact C11_matching_lemma. Qed.
Print Assumptions C11_matching.

(* under the guards the reader never stops *)
Theorem C11_reader_alive : forall es, all_ok es init -> closed (run es) = false.
Proof. exact all_ok_reader_alive. Qed.
Print Assumptions C11_reader_alive.

(* a future that has completed keeps its result in every continuation *)
Theorem C11_resolved_is_final : forall es es' i, i < nw (run es) -> ws (run es) i <> WPending ->
  ws (run (es ++ es')) i = ws (run es) i.
Proof. exact resolved_is_final. Qed.
Print Assumptions C11_resolved_is_final.

(* the executable guard checker is sound for the guards *)
Theorem C11_all_okb_sound : forall es s, all_okb true es s = true -> all_ok es s.
Proof. exact all_okb_sound. Qed.
Print Assumptions C11_all_okb_sound.

(* The register-before-write order is necessary: if the request may be written first, there is a
   schedule with distinct ids and a causal peer in which the answer finds no table entry, the reader
   stops, and the future of that request fails for good although its answer was sent. *)
Theorem C11_write_first_refuted :
  exists es h i,
    all_ok_wf es init /\ ~ all_ok es init /\
    i < nw (run es) /\ whop (run es) i = h /\
    (exists a, a < nsent (run es) /\ senth (run es) a = h) /\
    ws (run es) i = WDropped /\ closed (run es) = true /\
    (forall es', ws (run (es ++ es')) i = WDropped).
Proof. exact C11_write_first_refuted_lemma. Qed.
Print Assumptions C11_write_first_refuted.

(* Outside the property's quantifier, recorded because the model covers it: a future dropped while
   still pending leaves its Sender in the table; the answer to that request then makes the reader stop
   (sender.send fails), and every other outstanding future fails although the peer answers it. *)
Theorem C11_dropped_pending_future_stops_reader : forall s f q i, closed s = false -> inq s = IFrame f :: q ->
  lookup (table s) (hop f) = Some i -> gone s i = true -> closed (step s ReaderStep) = true.
Proof. exact abandoned_answer_stops_reader. Qed.
Print Assumptions C11_dropped_pending_future_stops_reader.

Theorem C11_dropped_pending_future_collateral :
  let es := [Register 1%N; WireOut 1%N; Register 2%N; WireOut 2%N; Abandon 0; Peer 1%N; ReaderStep; Peer 2%N; ReaderStep] in
  closed (run es) = true /\ outcomes (run es) = [WDropped; WDropped] /\
  (exists a, a < nsent (run es) /\ senth (run es) a = whop (run es) 1).
Proof. exact abandoned_collateral_witness. Qed.
Print Assumptions C11_dropped_pending_future_collateral.

(* futures dropped after they completed do not disturb the matching (non-vacuity of the relaxed guard) *)
Theorem C11_drop_after_completion_example :
  let es := [Register 1%N; WireOut 1%N; Peer 1%N; ReaderStep; Abandon 0; Register 2%N; WireOut 2%N; Peer 2%N; ReaderStep] in
  all_ok es init /\ closed (run es) = false /\
  outcomes (run es) = [WGot {| hop := 1%N; fid := 0 |}; WGot {| hop := 2%N; fid := 1 |}].
Proof. exact abandon_after_completion_example. Qed.
Print Assumptions C11_drop_after_completion_example.

(* non-vacuity: three requests, answer 1 consumed before anything else happens, answers 3 and 2 reordered *)
Theorem C11_matching_example :
  all_ok sched3 init /\
  (forall f, ~ In (IFrame f) (inq (run sched3))) /\
  (forall i, i < nw (run sched3) -> exists a, a < nsent (run sched3) /\ senth (run sched3) a = whop (run sched3) i) /\
  outcomes (run sched3) =
    [WGot {| hop := 1%N; fid := 0 |}; WGot {| hop := 2%N; fid := 2 |}; WGot {| hop := 3%N; fid := 1 |}].
Proof. exact C11_matching_nonvacuous. Qed.
Print Assumptions C11_matching_example.

(* One client object, several connections over its life (connect() called again; Model/ClientMulti.v): every
   connection has its own waiter table and its own closed flag (repair D12), so connection c ends exactly where
   its own events alone take a single-connection client - whatever the other connections do ... *)
Theorem C11_connections_are_independent : forall es c, conn (mrun es) c = run (cproj 0 c es).
Proof. exact multi_projection. Qed.
Print Assumptions C11_connections_are_independent.

(* ... hence safety and matching hold per connection *)
Theorem C11_safety_per_connection : forall es c i f, i < nw (conn (mrun es) c) -> ws (conn (mrun es) c) i = WGot f ->
  hop f = whop (conn (mrun es) c) i /\ fid f < nsent (conn (mrun es) c) /\ senth (conn (mrun es) c) (fid f) = hop f /\
  (forall j g, j < nw (conn (mrun es) c) -> ws (conn (mrun es) c) j = WGot g -> fid g = fid f -> j = i).
Proof. exact multi_safety. Qed.
Print Assumptions C11_safety_per_connection.

Theorem C11_matching_per_connection : forall es c, all_ok (cproj 0 c es) init ->
  (forall f, ~ In (IFrame f) (inq (conn (mrun es) c))) ->
  (forall i, i < nw (conn (mrun es) c) -> exists a, a < nsent (conn (mrun es) c) /\ senth (conn (mrun es) c) a = whop (conn (mrun es) c) i) ->
  forall i, i < nw (conn (mrun es) c) ->
    exists f, ws (conn (mrun es) c) i = WGot f /\ hop f = whop (conn (mrun es) c) i /\ closed (conn (mrun es) c) = false.
Proof. exact multi_matching. Qed.
Print Assumptions C11_matching_per_connection.

(* before repair D12 (one table shared by all connections of the object): request 2 is outstanding on the second,
   healthy connection, the FIRST connection's peer closes; its reader clears the shared table, the future of request 2
   fails although its answer is sent, and that answer then stops the second reader too *)
Theorem C11_shared_table_legacy_refuted :
  outcomes (sh_shared (shrun sched_shared)) = [WDropped; WDropped] /\
  sh_closed (shrun sched_shared) 1 = true /\ sh_closed (shrun sched_shared) 2 = true.
Proof. exact legacy_shared_table_refuted. Qed.
Print Assumptions C11_shared_table_legacy_refuted.

Theorem C11_shared_table_repaired_example :
  outcomes (conn (mrun sched_shared) 1) = [WDropped] /\
  outcomes (conn (mrun sched_shared) 2) = [WGot {| hop := 2%N; fid := 0 |}] /\
  closed (conn (mrun sched_shared) 1) = true /\ closed (conn (mrun sched_shared) 2) = false.
Proof. exact shared_table_repaired. Qed.
Print Assumptions C11_shared_table_repaired_example.

(* The peer as the library's own server (Model/Server.v), one connection, requests sent one after the other: the server
   reads them from ANY fault-free script, calls the handler once per request in order and writes exactly the answers (C08);
   a handler that echoes the hop-by-hop id yields answers whose ids survive the wire; the client's future for request i
   resolves with the i-th frame the server wrote - the handler's answer to request i - and its reader keeps running. *)
Theorem C11_end_to_end : forall (h : list msg -> msg -> option msg),
  (forall seen m a, h seen m = Some a -> m_hbh a = m_hbh m) ->
  forall lim d lim' d' reqs ms bss as' rs wscript,
  fault_free rs = true -> bytes_of rs = concat reqs -> Forall good_frame reqs ->
  Forall2 (fun f m => dec_msg lim d f = Ok m) reqs ms ->
  answer_octets h [] ms = Some bss -> accepting wscript = true ->
  Forall2 (fun bs a' => dec_msg lim' d' bs = Ok a') bss as' ->
  NoDup (map m_hbh ms) ->
  exists o, serve h lim d rs wscript = Some o /\ so_calls o = ms /\ so_written o = concat bss /\ so_res o = SClosed /\
    map m_hbh as' = map m_hbh ms /\
    forall i, i < length ms ->
      ws (run (e2e_sched (map m_hbh ms))) i = WGot {| hop := nth i (map m_hbh as') 0%N; fid := i |} /\
      closed (run (e2e_sched (map m_hbh ms))) = false.
Proof. exact end_to_end. Qed.
Print Assumptions C11_end_to_end.

Theorem C11_end_to_end_example :
  fault_free ex_rs2 = true /\ bytes_of ex_rs2 = concat [ex_frame; ex_frame2] /\ Forall good_frame [ex_frame; ex_frame2] /\
  Forall2 (fun f m => dec_msg 5 ex_dict f = Ok m) [ex_frame; ex_frame2] [ex_msg; ex_msg2] /\
  answer_octets ex_echo [] [ex_msg; ex_msg2] = Some [ex_frame; ex_frame2] /\ accepting ex_ws = true /\
  Forall2 (fun bs a' => dec_msg 5 ex_dict bs = Ok a') [ex_frame; ex_frame2] [ex_msg; ex_msg2] /\
  NoDup (map m_hbh [ex_msg; ex_msg2]) /\
  (forall seen m a, ex_echo seen m = Some a -> m_hbh a = m_hbh m) /\
  outcomes (run (e2e_sched (map m_hbh [ex_msg; ex_msg2]))) = [WGot {| hop := 7%N; fid := 0 |}; WGot {| hop := 8%N; fid := 1 |}].
Proof. exact end_to_end_nonvacuous. Qed.
Print Assumptions C11_end_to_end_example.
