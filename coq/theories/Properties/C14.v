(* C14: for every operation history the dictionary answers with the most recently supplied
   definition for exactly that (code, vendor) key.  Proofs are in Proofs/DictFacts.v. *)
Require Import DV.Base.Bytes DV.Model.Leaf DV.Spec.Wire DV.Model.Dict DV.Proofs.DictFacts.
Local Open Scope N_scope.

(* meaning of the history functions used in the statements *)
Theorem C14_last_def_some : forall k l x,
  last_def k l = Some x <->
  exists l1 l2, l = l1 ++ x :: l2 /\ key_of x = k /\ forall y, In y l2 -> key_of y <> k.
Proof. exact last_def_some_iff. Qed.
Print Assumptions C14_last_def_some.

Theorem C14_last_def_none : forall k l,
  last_def k l = None <-> (forall x, In x l -> key_of x <> k).
Proof. exact last_def_none_iff. Qed.
Print Assumptions C14_last_def_none.

Theorem C14_nm_last_some : forall k l v,
  nm_last k l = Some v <->
  exists l1 l2, l = l1 ++ (k, v) :: l2 /\ forall p, In p l2 -> fst p <> k.
Proof. exact nm_last_some_iff. Qed.
Print Assumptions C14_nm_last_some.

Theorem C14_nm_last_none : forall k l,
  nm_last k l = None <-> (forall p, In p l -> fst p <> k).
Proof. exact nm_last_none_iff. Qed.
Print Assumptions C14_nm_last_none.

(* keys: boolean equality is equality, key_ltb is the derived Ord of AvpKey *)
Theorem C14_key_eqb_eq : forall a b, key_eqb a b = true <-> a = b.
Proof. exact key_eqb_eq. Qed.
Print Assumptions C14_key_eqb_eq.

Theorem C14_list_beq_eq : forall a b, list_beq a b = true <-> a = b.
Proof. exact list_beq_eq. Qed.
Print Assumptions C14_list_beq_eq.

Theorem C14_key_ltb_irrefl : forall a, key_ltb a a = false.
Proof. exact key_ltb_irrefl. Qed.
Print Assumptions C14_key_ltb_irrefl.

Theorem C14_key_ltb_trans : forall a b c,
  key_ltb a b = true -> key_ltb b c = true -> key_ltb a c = true.
Proof. exact key_ltb_trans. Qed.
Print Assumptions C14_key_ltb_trans.

Theorem C14_key_trichotomy : forall a b, key_ltb a b = true \/ a = b \/ key_ltb b a = true.
Proof. exact key_trichotomy. Qed.
Print Assumptions C14_key_trichotomy.

Theorem C14_key_none_before_some : forall c1 c2 v,
  key_ltb (c1, None) (c2, Some v) = true /\ key_ltb (c1, Some v) (c2, None) = false.
Proof. intros c1 c2 v; exact (conj (key_ltb_none_some c1 c2 v) (key_ltb_some_none c1 c2 v)). Qed.
Print Assumptions C14_key_none_before_some.

(* 1 *)
Theorem C14_latest_wins : forall ops c vd,
  lookup (ds_avps (drun ops)) c vd = last_def (c, vd) (defs_of ops).
Proof. exact latest_wins. Qed.
Print Assumptions C14_latest_wins.

Theorem C14_latest_wins_explicit : forall ops c vd x,
  lookup (ds_avps (drun ops)) c vd = Some x <->
  exists l1 l2, defs_of ops = l1 ++ x :: l2 /\ key_of x = (c, vd)
                /\ forall y, In y l2 -> key_of y <> (c, vd).
Proof. exact latest_wins_explicit. Qed.
Print Assumptions C14_latest_wins_explicit.

(* 2 *)
Theorem C14_none_iff_never_defined : forall ops c vd,
  lookup (ds_avps (drun ops)) c vd = None <->
  (forall x, In x (defs_of ops) -> key_of x <> (c, vd)).
Proof. exact none_iff_never_defined. Qed.
Print Assumptions C14_none_iff_never_defined.

(* 3 *)
Theorem C14_no_shadowing : forall ops c v,
  lookup (ds_avps (drun ops)) c (Some v) = last_def (c, Some v) (defs_of ops)
  /\ lookup (ds_avps (drun ops)) c None = last_def (c, None) (defs_of ops)
  /\ (forall x, key_of x = (c, Some v) -> key_of x <> (c, None)).
Proof. exact no_shadowing. Qed.
Print Assumptions C14_no_shadowing.

Theorem C14_drun_sorted : forall ops, sorted (ds_avps (drun ops)).
Proof. exact drun_sorted. Qed.
Print Assumptions C14_drun_sorted.

Theorem C14_add_other_key_unchanged : forall s df c vd,
  sorted (ds_avps s) -> key_of df <> (c, vd) ->
  lookup (ds_avps (add_avp s df)) c vd = lookup (ds_avps s) c vd.
Proof. exact add_other_key_unchanged. Qed.
Print Assumptions C14_add_other_key_unchanged.

(* the same without the sortedness hypothesis (it is not needed) *)
Theorem C14_add_other_key_unchanged_any : forall s df c vd,
  key_of df <> (c, vd) ->
  lookup (ds_avps (add_avp s df)) c vd = lookup (ds_avps s) c vd.
Proof. exact add_other_key_unchanged_any. Qed.
Print Assumptions C14_add_other_key_unchanged_any.

Theorem C14_add_same_key : forall s df,
  lookup (ds_avps (add_avp s df)) (d_code df) (d_vendor df) = Some df.
Proof. exact add_same_key. Qed.
Print Assumptions C14_add_same_key.

Theorem C14_add_avp_sorted : forall s df, sorted (ds_avps s) -> sorted (ds_avps (add_avp s df)).
Proof. exact add_avp_sorted. Qed.
Print Assumptions C14_add_avp_sorted.

(* 4 *)
Theorem C14_entries_are_live : forall ops x, In x (ds_avps (drun ops)) <-> live (defs_of ops) x.
Proof. exact in_drun_live. Qed.
Print Assumptions C14_entries_are_live.

Theorem C14_by_name_sound : forall ops n x,
  by_name (ds_avps (drun ops)) n = Some x -> live (defs_of ops) x /\ d_name x = n.
Proof. exact by_name_sound. Qed.
Print Assumptions C14_by_name_sound.

Theorem C14_by_name_complete : forall ops n,
  (exists x, live (defs_of ops) x /\ d_name x = n) -> by_name (ds_avps (drun ops)) n <> None.
Proof. exact by_name_complete. Qed.
Print Assumptions C14_by_name_complete.

Theorem C14_by_name_least : forall ops n x,
  by_name (ds_avps (drun ops)) n = Some x ->
  forall y, live (defs_of ops) y -> d_name y = n ->
            y = x \/ key_ltb (key_of x) (key_of y) = true.
Proof. exact by_name_least. Qed.
Print Assumptions C14_by_name_least.

(* 5 *)
Theorem C14_dict_fn : forall ops c vd,
  dict_fn (drun ops) c vd = option_map d_ty (last_def (c, vd) (defs_of ops)).
Proof. exact dict_fn_latest. Qed.
Print Assumptions C14_dict_fn.

(* 6 *)
Theorem C14_apps : forall ops n, nm_get (ds_apps (drun ops)) n = nm_last n (apps_of ops).
Proof. exact apps_latest. Qed.
Print Assumptions C14_apps.

Theorem C14_cmds : forall ops n, nm_get (ds_cmds (drun ops)) n = nm_last n (cmds_of ops).
Proof. exact cmds_latest. Qed.
Print Assumptions C14_cmds.

(* 7 *)
Theorem C14_must : forall s, must_has_m (Some s) = true <-> In [x4d] (split_comma s).
Proof. exact must_has_m_iff. Qed.
Print Assumptions C14_must.

Theorem C14_must_none : must_has_m None = false.
Proof. exact must_has_m_none. Qed.
Print Assumptions C14_must_none.

Theorem C14_split_comma_spec : forall s,
  concat_with_comma (split_comma s) = s /\ Forall (fun t => ~ In x2c t) (split_comma s).
Proof. exact split_comma_spec. Qed.
Print Assumptions C14_split_comma_spec.

Theorem C14_split_comma_unique : forall s l,
  l <> [] -> Forall (fun t => ~ In x2c t) l -> concat_with_comma l = s -> split_comma s = l.
Proof. exact split_comma_unique. Qed.
Print Assumptions C14_split_comma_unique.

(* dictionary side of C15: the data-type name table *)
Theorem C14_ty_of_name_known : Forall (fun p => ty_of_name (fst p) = snd p) ty_names.
Proof. exact ty_of_name_known. Qed.
Print Assumptions C14_ty_of_name_known.

Theorem C14_ty_names_distinct : NoDup (map fst ty_names).
Proof. exact ty_names_distinct. Qed.
Print Assumptions C14_ty_names_distinct.

Theorem C14_ty_names_all_types :
  NoDup (map snd ty_names)
  /\ (forall t, In t (map snd ty_names) <-> t <> TUnknown)
  /\ (forall t, t <> TUnknown -> length (filter (ty_eqb t) (map snd ty_names)) = 1%nat)
  /\ length ty_names = 16%nat.
Proof. exact ty_names_all_types. Qed.
Print Assumptions C14_ty_names_all_types.

Theorem C14_ty_of_name_unknown : forall n, ~ In n (map fst ty_names) -> ty_of_name n = TUnknown.
Proof. exact ty_of_name_unknown. Qed.
Print Assumptions C14_ty_of_name_unknown.

Theorem C14_ty_of_name_spec : forall n t,
  ty_of_name n = t <-> (In (n, t) ty_names \/ (~ In n (map fst ty_names) /\ t = TUnknown)).
Proof. exact ty_of_name_spec. Qed.
Print Assumptions C14_ty_of_name_spec.
