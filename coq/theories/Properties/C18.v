(* C18: AVP lookup and typed accessors agree with the message content.  Proofs: Proofs/AccessFacts.v *)
Require Import DV.Base.Bytes DV.Base.Utf8 DV.Model.Leaf DV.Spec.Wire DV.Model.Avp DV.Model.Message
  DV.Proofs.AccessFacts.
Local Open Scope N_scope.

Theorem C18_get_avps : forall m, get_avps m = m_avps m.
Proof. intros m; exact eq_refl. Qed.
Print Assumptions C18_get_avps.

Theorem C18_add_appends : forall m a, get_avps (msg_add m a) = get_avps m ++ [a].
Proof. exact msg_add_appends. Qed.
Print Assumptions C18_add_appends.

Theorem C18_get_avp_first : forall m c a,
  get_avp m c = Some a <->
  exists l1 l2, get_avps m = l1 ++ a :: l2 /\ a_code a = c /\ Forall (fun x => a_code x <> c) l1.
Proof. exact get_avp_first. Qed.
Print Assumptions C18_get_avp_first.

Theorem C18_get_avp_none : forall m c, get_avp m c = None <-> Forall (fun x => a_code x <> c) (get_avps m).
Proof. exact get_avp_none. Qed.
Print Assumptions C18_get_avp_none.

(* the sixteen typed accessors, indexed by the data type they ask for *)
Theorem C18_typed : forall t a v, get_typed t a = Some v <-> (a_val a = v /\ val_ty v = t).
Proof. exact get_typed_spec. Qed.
Print Assumptions C18_typed.

Theorem C18_typed_none : forall t a, get_typed t a = None <-> val_ty (a_val a) <> t.
Proof. exact get_typed_none. Qed.
Print Assumptions C18_typed_none.

Theorem C18_group_members : forall v ms, group_members v = Some ms <-> v = VGrp ms.
Proof. exact group_members_spec. Qed.
Print Assumptions C18_group_members.
