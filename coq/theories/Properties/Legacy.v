(* The proofs depend on the repairs: for each repaired defect D1 .. D6 the pre-repair
   behaviour (Refuted/Legacy.v) violates the property that holds for the repaired model.
   Proofs: Refuted/Legacy.v *)
Require Import DV.Base.Bytes DV.Base.Utf8 DV.Model.Leaf DV.Spec.Wire DV.Model.Avp DV.Model.Message
  DV.Model.IoWrite DV.Refuted.Legacy.
Local Open Scope N_scope.

(* D1 (Address::length() of an E.164 address omitted the address family) against
   C01_avp_is_rfc6733: the octets emitted are not the stored length plus padding *)
Theorem D1_refuted :
  exists a, a = mk_avp_legacy 8 None true false (VLeaf (LAddrE164 [x31; x32; x33]))
            /\ blen (enc_avp a) <> a_len a + a_pad a.
Proof. exact D1_avp_witness. Qed.
Print Assumptions D1_refuted.

(* ... for every E.164 value: always two octets more than reported *)
Theorem D1_refuted_general : forall c vd m p s,
  blen (enc_avp (mk_avp_legacy c vd m p (VLeaf (LAddrE164 s))))
  = a_len (mk_avp_legacy c vd m p (VLeaf (LAddrE164 s))) + a_pad (mk_avp_legacy c vd m p (VLeaf (LAddrE164 s))) + 2.
Proof. exact D1_avp_general. Qed.
Print Assumptions D1_refuted_general.

(* D1 against C01_encode_is_rfc6733: the encoder succeeds, but the length the message reports
   and writes into its 24-bit length field is not the number of octets produced *)
Theorem D1_refuted_msg :
  exists m bs, m = msg_add (msg_new 257 0 128 1 2)
                           (mk_avp_legacy 8 None true false (VLeaf (LAddrE164 [x31; x32; x33])))
               /\ enc_msg_raw m = bs /\ enc_msg m = Ok bs
               /\ m_len m <> blen bs /\ msg_len_field bs <> blen bs /\ ~ complete bs.
Proof. exact D1_msg_witness. Qed.
Print Assumptions D1_refuted_msg.

(* D2 (unchecked `header.length - header_length`) against C04_never_panics: a complete
   28-octet frame whose AVP declares length 0 traps the legacy decoder *)
Theorem D2_refuted :
  exists d bs, dec_msg_legacy_d2 16 d bs = Panic /\ dec_msg 16 d bs = Err /\ complete bs.
Proof. exact D2_witness. Qed.
Print Assumptions D2_refuted.

(* D3 (no nesting limit) against C04_depth_bounded: for every n for which the frame of n + 1
   nested groups fits the 24-bit message length, the legacy decoder accepts it and returns a
   tree deeper than n, while the repaired decoder rejects it under every budget up to n *)
Theorem D3_refuted : forall n, N.of_nat n <= 2000000 ->
  exists d bs m, dec_msg_legacy_d3 d bs = Ok m /\ (n < depth_list (m_avps m))%nat /\ complete bs
                 /\ forall lim, (lim <= n)%nat -> dec_msg lim d bs = Err.
Proof. exact D3_witness. Qed.
Print Assumptions D3_refuted.

Theorem D3_refuted_100 :
  exists m, dec_msg_legacy_d3 d3_dict (d3_frame 100) = Ok m /\ (100 < depth_list (m_avps m))%nat
            /\ dec_msg 16 d3_dict (d3_frame 100) = Err.
Proof. exact D3_witness_100. Qed.
Print Assumptions D3_refuted_100.

(* the legacy decoder differs from the repaired one only by accepting more *)
Theorem D3_legacy_extends : forall lim d bs m, dec_msg lim d bs = Ok m -> dec_msg_legacy_d3 d bs = Ok m.
Proof. exact d3_msg_extends. Qed.
Print Assumptions D3_legacy_extends.

(* D4 (Result of the value encoder dropped) against C01 / C05_unrepresentable: a Time in 2040
   makes the legacy encoder report Ok for 28 octets whose length field says 32 *)
Theorem D4_refuted :
  exists m bs, m = msg_add (msg_new 257 0 128 1 2) (mk_avp 55 None true false (VLeaf (LTime 2208988800)))
               /\ enc_msg_legacy_d4 m = Ok bs
               /\ msg_len_field bs = 32 /\ m_len m = 32 /\ blen bs = 28 /\ ~ complete bs
               /\ enc_msg m = Err.
Proof. exact D4_witness. Qed.
Print Assumptions D4_refuted.

(* D4 against C05_success_means_complete: the writer fails inside the last value and the
   legacy encoder reports success for 30 of 32 octets *)
Theorem D4_refuted_writer :
  exists m w acc,
    m = msg_add (msg_new 272 4 128 1 2) (mk_avp 415 None true false (VLeaf (LU32 1000)))
    /\ w = MkW 30 [] /\ caps_pos w
    /\ enc_to_legacy_d4 m w = Some (true, acc)
    /\ blen (enc_msg_raw m) = 32 /\ blen acc = 30 /\ acc = firstn 30 (enc_msg_raw m)
    /\ enc_to m w = Some (false, Some acc).
Proof. exact D4_writer_witness. Qed.
Print Assumptions D4_refuted_writer.

(* where no value encoder fails the legacy encoder is the repaired one *)
Theorem D4_legacy_agrees : forall a, enc_ok a = true -> enc_avp_legacy_d4 a = (enc_avp a, true).
Proof. exact d4_agrees. Qed.
Print Assumptions D4_legacy_agrees.

(* D5 (Time::encode_to checks the upper bound only) against C02 / C05_representable_time:
   one second before 1900 is accepted, wraps and comes back as a date in 2036 *)
Theorem D5_refuted :
  exists t, t = (-2208988801)%Z
            /\ leaf_enc_ok_legacy_d5 (LTime t) = true /\ time_ok t = false /\ leaf_enc_ok (LTime t) = false
            /\ dec_leaf TTime 4 (enc_leaf (LTime t)) = Some (LTime 2085978495, [])
            /\ dec_leaf TTime 4 (enc_leaf (LTime t)) <> Some (LTime t, []).
Proof. exact D5_witness. Qed.
Print Assumptions D5_refuted.

Theorem D5_refuted_general : forall t, (t < -2208988800)%Z ->
  leaf_enc_ok_legacy_d5 (LTime t) = true /\ leaf_enc_ok (LTime t) = false.
Proof. exact D5_general. Qed.
Print Assumptions D5_refuted_general.

(* D6 (length fields truncated to 24 bits) against C01 / C05_representable_len: no length of
   2^24 or more survives three octets; the legacy encoder reports success for an AVP with
   stored length 2^24 + 8 and for a message with stored length 2^24 + 20 *)
Theorem D6_refuted :
  (exists len, 16777216 <= len /\ un_be (be24 len) <> len)
  /\ (exists a bs, a_len a = 16777216 + 8 /\ enc_avp_legacy_d6 a = Ok bs
                   /\ avp_len_field bs = 8 /\ avp_len_field bs <> a_len a /\ enc_ok a = false)
  /\ (exists m bs, m_len m = 16777216 + 20 /\ enc_msg_legacy_d6 m = Ok bs
                   /\ msg_len_field bs = 20 /\ msg_len_field bs <> m_len m /\ enc_msg m = Err).
Proof. exact D6_witness. Qed.
Print Assumptions D6_refuted.

Theorem D6_refuted_general : forall len, 16777216 <= len -> un_be (be24 len) <> len.
Proof. exact D6_general. Qed.
Print Assumptions D6_refuted_general.
