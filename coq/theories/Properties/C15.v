(* C15: AVPs are typed by their exact dictionary entry or rejected.
   Proofs: Proofs/DecExtra.v (dispatch), Proofs/DictFacts.v (type-name table, key separation) *)
Require Import DV.Base.Bytes DV.Base.Utf8 DV.Model.Leaf DV.Spec.Wire DV.Model.Avp DV.Model.Message
  DV.Model.Dict DV.Proofs.DecTotal DV.Proofs.BuildFacts DV.Proofs.DecExtra DV.Proofs.DictFacts.
Local Open Scope N_scope.

(* the decoder consults the dictionary with exactly the (code, vendor) pair of the AVP header:
   no entry or an unrecognised type name => error; otherwise the value has the entry's type *)
Theorem C15_dispatch : forall f lim d r c m p len vd r2,
  dec_header r = Some (c, m, p, len, vd, r2) ->
  match d c vd with
  | None | Some TUnknown => dec_avp (S f) lim d r = Err
  | Some t => forall a r', dec_avp (S f) lim d r = Ok (a, r') ->
                           a_code a = c /\ a_vendor a = vd /\ val_ty (a_val a) = t
  end.
Proof. exact dec_avp_dispatch. Qed.
Print Assumptions C15_dispatch.

Theorem C15_other_vendor_rejected : forall f lim d r c m p len vd r2,
  dec_header r = Some (c, m, p, len, vd, r2) -> d c vd = None -> dec_avp (S f) lim d r = Err.
Proof. exact other_vendor_rejected. Qed.
Print Assumptions C15_other_vendor_rejected.

(* what the decoder consults is the type of the latest definition for exactly that key *)
Theorem C15_dictionary_key : forall ops c vd,
  dict_fn (drun ops) c vd = option_map d_ty (last_def (c, vd) (defs_of ops)).
Proof. exact dict_fn_latest. Qed.
Print Assumptions C15_dictionary_key.

(* the sixteen documented type names, and every other spelling *)
Theorem C15_type_names : Forall (fun p => ty_of_name (fst p) = snd p) ty_names.
Proof. exact ty_of_name_known. Qed.
Print Assumptions C15_type_names.

Theorem C15_type_names_cover :
  NoDup (map snd ty_names) /\ (forall t, In t (map snd ty_names) <-> t <> TUnknown) /\
  (forall t, t <> TUnknown -> length (filter (ty_eqb t) (map snd ty_names)) = 1%nat) /\ length ty_names = 16%nat.
Proof. exact ty_names_all_types. Qed.
Print Assumptions C15_type_names_cover.

Theorem C15_unknown_spelling : forall n, ~ In n (map fst ty_names) -> ty_of_name n = TUnknown.
Proof. exact ty_of_name_unknown. Qed.
Print Assumptions C15_unknown_spelling.

(* every recognised (non-grouped) type can be used to encode and decode a value of that type *)
Theorem C15_every_known_type_usable : forall lim d c vd mf pf l cmd app fl hbh e2e bs,
  d c vd = Some (leaf_ty l) -> leaf_wire l = true -> c < 4294967296 -> vd_ok vd ->
  known_cmd cmd = true -> known_app app = true ->
  cmd < 16777216 -> app < 4294967296 -> fl < 256 -> hbh < 4294967296 -> e2e < 4294967296 ->
  let m := msg_add (msg_new cmd app fl hbh e2e) (mk_avp c vd mf pf (VLeaf l)) in
  msg_wireb m = true -> enc_msg m = Ok bs -> dec_msg lim d bs = Ok m.
Proof. exact known_type_usable. Qed.
Print Assumptions C15_every_known_type_usable.

(* at EVERY depth: each AVP of an accepted message, however deeply nested, carries a value of exactly the type the dictionary
   declares for its own (code, vendor) pair - the enclosing group's vendor, the other entries of its code, the names that
   entry shares with others lend it nothing (`typed` recurses through Grouped values) *)
Theorem C15_every_depth : forall lim d bs m, dec_msg lim d bs = Ok m -> typed_list d (m_avps m).
Proof. exact dec_msg_typed. Qed.
Print Assumptions C15_every_depth.
