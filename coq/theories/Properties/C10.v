(* C10: one misbehaving connection cannot disturb the others.  Model: Model/Listener.v (accept
   loop + per-connection tasks at event granularity; tokio::spawn's panic isolation, the
   scheduler, TCP and OpenSSL are assumptions of the model).  Proofs: Proofs/ListenerFacts.v *)
Require Import DV.Base.Bytes DV.Spec.Wire DV.Model.Avp DV.Model.Message DV.Model.Stream DV.Model.Server DV.Model.Listener
  DV.Proofs.ListenerFacts DV.Proofs.ListenerServe.

(* whatever the other connections do and however events interleave, connection c ends exactly
   where its own events alone take it: nothing of another connection reaches it *)
Theorem C10_noninterference : forall es s s' c,
  lrun lstep s es = Some s' -> crun (l_tls s) (conns s c) (proj c es) = Some (conns s' c).
Proof. exact noninterference. Qed.
Print Assumptions C10_noninterference.

Theorem C10_enabled_locally : forall s e,
  (exists s', lstep s e = Some s') <-> (exists x, cstep (l_tls s) (conns s (ev_cid e)) e = Some x).
Proof. exact enabled_locally. Qed.
Print Assumptions C10_enabled_locally.

Theorem C10_listener_live : forall es tls s c,
  lrun lstep (linit tls) es = Some s -> conns s c = None -> exists s', lstep s (LAccept c) = Some s'.
Proof. exact listener_live. Qed.
Print Assumptions C10_listener_live.

Theorem C10_good_connection_served : forall es tls s c data,
  lrun lstep (linit tls) es = Some s -> conns s c = None ->
  exists s', lrun lstep s (LAccept c :: (if tls then [LHsDone c] else []) ++ [LData c data]) = Some s'
             /\ conns s' c = Some (MkC PServing data)
             /\ forall k, k <> c -> conns s' k = conns s k.
Proof. exact good_connection_served. Qed.
Print Assumptions C10_good_connection_served.

(* before the repair: a peer that connects over TLS and stays silent disables Accept for ever *)
Theorem C10_legacy_refuted : forall es s c c',
  lrun lstep_legacy (linit true) [LAccept c] = Some s ->
  (forall e, In e es -> ev_cid e <> c) ->
  forall s', lrun lstep_legacy s es = Some s' -> lstep_legacy s' (LAccept c') = None.
Proof. exact legacy_refuted. Qed.
Print Assumptions C10_legacy_refuted.

(* "Answers are only ever written to the connection that carried the request": composed with the per-connection
   loop of Model/Server.v (any handler h), the octets written to connection c are the serve loop's output on the
   octets c itself delivered while it was being served - for every trace, whatever the other connections do *)
Theorem C10_answers_stay_home : forall h lim d es tls s c,
  lrun lstep (linit tls) es = Some s ->
  conn_written h lim d (conns s c) = answers h lim d (own_input tls (proj c es))
  \/ (conns s c = None /\ conn_written h lim d (conns s c) = []).
Proof. exact answers_stay_home. Qed.
Print Assumptions C10_answers_stay_home.

Theorem C10_same_own_events_same_answers : forall h lim d es es' tls s s' c,
  lrun lstep (linit tls) es = Some s -> lrun lstep (linit tls) es' = Some s' ->
  proj c es = proj c es' -> conn_written h lim d (conns s c) = conn_written h lim d (conns s' c).
Proof. exact same_own_events_same_answers. Qed.
Print Assumptions C10_same_own_events_same_answers.

(* a connection's Diameter input grows only by its own data arriving while it is served *)
Theorem C10_input_is_own_data : forall tls x e y, cstep tls (Some x) e = Some (Some y) ->
  inb y = inb x ++ match e, ph x with LData _ bs, PServing => bs | _, _ => [] end.
Proof. exact cstep_inb. Qed.
Print Assumptions C10_input_is_own_data.
