(* C06: stream framing is independent of segmentation and of Pending results. *)
Require Import DV.Base.Bytes DV.Spec.Wire DV.Model.Avp DV.Model.Message DV.Model.Stream
  DV.Proofs.StreamFacts.

(* k pipelined complete frames followed by arbitrary octets [tail]: however the octets are
   chunked and wherever Pending entries sit, k successive Codec::decode calls each consume
   exactly their own frame and yield what dec_msg yields on it.  Holds for ALL scripts whose
   deliverable octets are [concat frames ++ tail] (no fault-freeness needed: the fault, if any,
   lies behind those octets); [good_frame f] = complete f /\ 20 <= blen f <= 1048576. *)
Theorem C06_read : forall lim d frames tail script,
  bytes_of script = concat frames ++ tail -> Forall good_frame frames ->
  exists script', decode_n (length frames) lim d script
                  = (map (fun f => dres_of (dec_msg lim d f)) frames, script')
    /\ bytes_of script' = tail /\ tail_kind script' = tail_kind script.
Proof. exact C06_read_lemma. Qed.
Print Assumptions C06_read.

(* on a fault-free script Codec::decode is a function of the delivered octets *)
Theorem C06_read_bytes : forall lim d script, fault_free script = true ->
  exists script', codec_decode lim d script = (fst (codec_decode_b lim d (bytes_of script)), script')
    /\ bytes_of script' = snd (codec_decode_b lim d (bytes_of script))
    /\ fault_free script' = true.
Proof. exact C06_read_bytes_lemma. Qed.
Print Assumptions C06_read_bytes.

(* the same when the octets are followed by an io error instead of end of file *)
Theorem C06_read_bytes_err : forall lim d script, err_cut script = true ->
  exists script', codec_decode lim d script
                  = (fst (codec_decode_bk DErr lim d (bytes_of script)), script')
    /\ bytes_of script' = snd (codec_decode_bk DErr lim d (bytes_of script))
    /\ err_cut script' = true.
Proof. exact C06_read_bytes_err_lemma. Qed.
Print Assumptions C06_read_bytes_err.

Theorem C06_write : forall m bs ws, enc_msg m = Ok bs -> accepting ws = true ->
  let '(ok, acc, _) := codec_encode m ws in ok = true /\ acc = bs.
Proof. exact C06_write_lemma. Qed.
Print Assumptions C06_write.

(* ANY write script *)
Theorem C06_write_prefix : forall m bs ws, enc_msg m = Ok bs ->
  let '(ok, acc, _) := codec_encode m ws in
  (exists rest, bs = acc ++ rest) /\ (ok = true -> acc = bs) /\ (ok = false -> acc <> bs).
Proof. exact C06_write_prefix_lemma. Qed.
Print Assumptions C06_write_prefix.

(* one write_all against a writer that accepts q octets in total and then fails *)
Theorem C06_write_budget : forall ws bs q ok acc ws', wbudget ws = Some q ->
  write_all ws bs = (ok, acc, ws') ->
  ok = (blen bs <=? q)%N /\ acc = firstn (N.to_nat q) bs.
Proof. exact write_all_budget. Qed.
Print Assumptions C06_write_budget.
