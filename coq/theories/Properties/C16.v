(* C16: building an AVP by name follows the dictionary; failure changes nothing.  Proofs: Proofs/AccessFacts.v *)
Require Import DV.Base.Bytes DV.Base.Utf8 DV.Model.Leaf DV.Spec.Wire DV.Model.Avp DV.Model.Message
  DV.Model.Dict DV.Model.Build DV.Proofs.BuildFacts DV.Proofs.AccessFacts.
Local Open Scope N_scope.

Theorem C16_from_name : forall ds n v a,
  from_name ds n v = Some a ->
  exists df, by_name ds n = Some df /\ d_name df = n /\ In df ds /\
             a = mk_avp (d_code df) (d_vendor df) (d_m df) false v /\
             a = mk_avp_fl (d_code df) (d_vendor df) (if d_m df then 64 else 0) v.
Proof. exact from_name_spec. Qed.
Print Assumptions C16_from_name.

Theorem C16_encoding : forall ds n v a df,
  from_name ds n v = Some a -> by_name ds n = Some df ->
  enc_avp a = be32 (d_code df) ++ [b_of_N (flags_byte (is_some (d_vendor df)) (d_m df) false)]
              ++ be24 (hdr (d_vendor df) + val_len v) ++ optbe32 (d_vendor df) ++ enc_val v ++ zeros (pad4 (val_len v)).
Proof. exact from_name_encoding. Qed.
Print Assumptions C16_encoding.

Theorem C16_unknown_name_changes_nothing : forall ds m n v,
  by_name ds n = None -> hstep ds m (HAddName n v) = (m, false).
Proof. exact add_by_name_unknown_changes_nothing. Qed.
Print Assumptions C16_unknown_name_changes_nothing.

Theorem C16_known_name_adds : forall ds m n v v' df,
  eval_v ds v = Some v' -> by_name ds n = Some df ->
  hstep ds m (HAddName n v) = (msg_add m (mk_avp (d_code df) (d_vendor df) (d_m df) false v'), true).
Proof. exact add_by_name_known. Qed.
Print Assumptions C16_known_name_adds.

Theorem C16_failed_call_changes_nothing : forall ds m o, snd (hstep ds m o) = false -> fst (hstep ds m o) = m.
Proof. exact hstep_failed_unchanged. Qed.
Print Assumptions C16_failed_call_changes_nothing.
