(* C17.  For every one of the 2^32 possible four-octet values, each four-octet data type
   (Unsigned32, Integer32, Enumerated, Float32, Time, IPv4 address) decodes it to the value
   RFC 6733 assigns - big-endian two's-complement or unsigned integer, IEEE-754 single bit
   pattern, seconds since 1900-01-01T00:00:00Z, dotted quad - and encoding that value gives
   back the same four octets.  The eight-octet types (Unsigned64, Integer64, Float64) satisfy
   the same.  (The IEEE-754 reading of the bit patterns is in C17f.v.)
   The octets b0 b1 b2 b3 are universally quantified: each statement covers all 2^32
   (2^64) patterns, any trailing octets [rest] and any declared length [vl]. *)
Require Import DV.Base.Bytes DV.Base.Calendar DV.Model.Leaf DV.Proofs.LeafFacts DV.Proofs.FourOctet.
Local Open Scope N_scope.

(* every four-octet pattern decodes, consuming exactly the four octets, to a wire value of
   the type whose encoding is the same four octets *)
Theorem C17_dec4_total : forall t b0 b1 b2 b3 rest vl,
  four_octet t = true ->
  exists l, dec_leaf t vl ([b0; b1; b2; b3] ++ rest) = Some (l, rest) /\
            leaf_ty l = t /\ enc_leaf l = [b0; b1; b2; b3] /\ leaf_wire l = true.
Proof. exact dec4_total. Qed.
Print Assumptions C17_dec4_total.

Theorem C17_u32_value : forall b0 b1 b2 b3 rest vl,
  dec_leaf TU32 vl ([b0; b1; b2; b3] ++ rest) =
  Some (LU32 (Byte.to_N b0 * 2 ^ 24 + Byte.to_N b1 * 2 ^ 16 + Byte.to_N b2 * 2 ^ 8 + Byte.to_N b3), rest).
Proof. exact dec4_value_u32. Qed.
Print Assumptions C17_u32_value.

Theorem C17_i32_value : forall b0 b1 b2 b3 rest vl,
  dec_leaf TI32 vl ([b0; b1; b2; b3] ++ rest) =
  Some (LI32 (let n := Z.of_N (Byte.to_N b0 * 2 ^ 24 + Byte.to_N b1 * 2 ^ 16 + Byte.to_N b2 * 2 ^ 8 + Byte.to_N b3) in
              if n <? 2 ^ 31 then n else n - 2 ^ 32)%Z, rest).
Proof. exact dec4_value_i32. Qed.
Print Assumptions C17_i32_value.

Theorem C17_enum_value : forall b0 b1 b2 b3 rest vl,
  dec_leaf TEnum vl ([b0; b1; b2; b3] ++ rest) =
  Some (LEnum (let n := Z.of_N (Byte.to_N b0 * 2 ^ 24 + Byte.to_N b1 * 2 ^ 16 + Byte.to_N b2 * 2 ^ 8 + Byte.to_N b3) in
               if n <? 2 ^ 31 then n else n - 2 ^ 32)%Z, rest).
Proof. exact dec4_value_enum. Qed.
Print Assumptions C17_enum_value.

Theorem C17_f32_value : forall b0 b1 b2 b3 rest vl,
  dec_leaf TF32 vl ([b0; b1; b2; b3] ++ rest) =
  Some (LF32 (Byte.to_N b0 * 2 ^ 24 + Byte.to_N b1 * 2 ^ 16 + Byte.to_N b2 * 2 ^ 8 + Byte.to_N b3), rest).
Proof. exact dec4_value_f32. Qed.
Print Assumptions C17_f32_value.

Theorem C17_time_value : forall b0 b1 b2 b3 rest vl,
  dec_leaf TTime vl ([b0; b1; b2; b3] ++ rest) =
  Some (LTime (Z.of_N (Byte.to_N b0 * 2 ^ 24 + Byte.to_N b1 * 2 ^ 16 + Byte.to_N b2 * 2 ^ 8 + Byte.to_N b3)
               - 2208988800)%Z, rest).
Proof. exact dec4_value_time. Qed.
Print Assumptions C17_time_value.

Theorem C17_ipv4_value : forall b0 b1 b2 b3 rest vl,
  dec_leaf TIPv4 vl ([b0; b1; b2; b3] ++ rest) = Some (LIPv4 [b0; b1; b2; b3], rest).
Proof. exact dec4_value_ipv4. Qed.
Print Assumptions C17_ipv4_value.

Theorem C17_enc4_dec4 : forall l rest vl,
  four_octet (leaf_ty l) = true -> leaf_wire l = true ->
  dec_leaf (leaf_ty l) vl (enc_leaf l ++ rest) = Some (l, rest).
Proof. exact enc4_dec4. Qed.
Print Assumptions C17_enc4_dec4.

Theorem C17_enc4_len : forall l,
  four_octet (leaf_ty l) = true -> leaf_wire l = true -> blen (enc_leaf l) = 4.
Proof. exact enc4_len. Qed.
Print Assumptions C17_enc4_len.

Theorem C17_dec4_injective : forall t a0 a1 a2 a3 c0 c1 c2 c3 rest rest' vl vl' l,
  four_octet t = true ->
  dec_leaf t vl ([a0; a1; a2; a3] ++ rest) = Some (l, rest) ->
  dec_leaf t vl' ([c0; c1; c2; c3] ++ rest') = Some (l, rest') ->
  [a0; a1; a2; a3] = [c0; c1; c2; c3].
Proof. exact dec4_inj. Qed.
Print Assumptions C17_dec4_injective.

Theorem C17_dec4_surjective : forall l,
  four_octet (leaf_ty l) = true -> leaf_wire l = true ->
  exists b0 b1 b2 b3, enc_leaf l = [b0; b1; b2; b3] /\
    forall rest vl, dec_leaf (leaf_ty l) vl ([b0; b1; b2; b3] ++ rest) = Some (l, rest).
Proof. exact dec4_surj. Qed.
Print Assumptions C17_dec4_surjective.

Theorem C17_dec8_total : forall t b0 b1 b2 b3 b4 b5 b6 b7 rest vl,
  eight_octet t = true ->
  exists l, dec_leaf t vl ([b0; b1; b2; b3; b4; b5; b6; b7] ++ rest) = Some (l, rest) /\
            leaf_ty l = t /\ enc_leaf l = [b0; b1; b2; b3; b4; b5; b6; b7] /\ leaf_wire l = true.
Proof. exact dec8_total. Qed.
Print Assumptions C17_dec8_total.

Theorem C17_u64_value : forall b0 b1 b2 b3 b4 b5 b6 b7 rest vl,
  dec_leaf TU64 vl ([b0; b1; b2; b3; b4; b5; b6; b7] ++ rest) =
  Some (LU64 (Byte.to_N b0 * 2 ^ 56 + Byte.to_N b1 * 2 ^ 48 + Byte.to_N b2 * 2 ^ 40 + Byte.to_N b3 * 2 ^ 32 +
              Byte.to_N b4 * 2 ^ 24 + Byte.to_N b5 * 2 ^ 16 + Byte.to_N b6 * 2 ^ 8 + Byte.to_N b7), rest).
Proof. exact dec8_value_u64. Qed.
Print Assumptions C17_u64_value.

Theorem C17_i64_value : forall b0 b1 b2 b3 b4 b5 b6 b7 rest vl,
  dec_leaf TI64 vl ([b0; b1; b2; b3; b4; b5; b6; b7] ++ rest) =
  Some (LI64 (let n := Z.of_N (Byte.to_N b0 * 2 ^ 56 + Byte.to_N b1 * 2 ^ 48 + Byte.to_N b2 * 2 ^ 40 + Byte.to_N b3 * 2 ^ 32 +
                               Byte.to_N b4 * 2 ^ 24 + Byte.to_N b5 * 2 ^ 16 + Byte.to_N b6 * 2 ^ 8 + Byte.to_N b7) in
              if n <? 2 ^ 63 then n else n - 2 ^ 64)%Z, rest).
Proof. exact dec8_value_i64. Qed.
Print Assumptions C17_i64_value.

Theorem C17_f64_value : forall b0 b1 b2 b3 b4 b5 b6 b7 rest vl,
  dec_leaf TF64 vl ([b0; b1; b2; b3; b4; b5; b6; b7] ++ rest) =
  Some (LF64 (Byte.to_N b0 * 2 ^ 56 + Byte.to_N b1 * 2 ^ 48 + Byte.to_N b2 * 2 ^ 40 + Byte.to_N b3 * 2 ^ 32 +
              Byte.to_N b4 * 2 ^ 24 + Byte.to_N b5 * 2 ^ 16 + Byte.to_N b6 * 2 ^ 8 + Byte.to_N b7), rest).
Proof. exact dec8_value_f64. Qed.
Print Assumptions C17_f64_value.

Theorem C17_enc8_dec8 : forall l rest vl,
  eight_octet (leaf_ty l) = true -> leaf_wire l = true ->
  dec_leaf (leaf_ty l) vl (enc_leaf l ++ rest) = Some (l, rest).
Proof. exact enc8_dec8. Qed.
Print Assumptions C17_enc8_dec8.

Theorem C17_enc8_len : forall l,
  eight_octet (leaf_ty l) = true -> leaf_wire l = true -> blen (enc_leaf l) = 8.
Proof. exact enc8_len. Qed.
Print Assumptions C17_enc8_len.

Theorem C17_dec8_injective :
  forall t a0 a1 a2 a3 a4 a5 a6 a7 c0 c1 c2 c3 c4 c5 c6 c7 rest rest' vl vl' l,
  eight_octet t = true ->
  dec_leaf t vl ([a0; a1; a2; a3; a4; a5; a6; a7] ++ rest) = Some (l, rest) ->
  dec_leaf t vl' ([c0; c1; c2; c3; c4; c5; c6; c7] ++ rest') = Some (l, rest') ->
  [a0; a1; a2; a3; a4; a5; a6; a7] = [c0; c1; c2; c3; c4; c5; c6; c7].
Proof. exact dec8_inj. Qed.
Print Assumptions C17_dec8_injective.

Theorem C17_dec8_surjective : forall l,
  eight_octet (leaf_ty l) = true -> leaf_wire l = true ->
  exists b0 b1 b2 b3 b4 b5 b6 b7, enc_leaf l = [b0; b1; b2; b3; b4; b5; b6; b7] /\
    forall rest vl, dec_leaf (leaf_ty l) vl ([b0; b1; b2; b3; b4; b5; b6; b7] ++ rest) = Some (l, rest).
Proof. exact dec8_surj. Qed.
Print Assumptions C17_dec8_surjective.

(* the constant of src/avp/time.rs is the number of seconds between the two epochs *)
Theorem C17_epoch :
  ((days_from_civil 1970 1 1 - days_from_civil 1900 1 1) * 86400 = rfc868_offset)%Z.
Proof. exact epoch_offset_derived. Qed.
Print Assumptions C17_epoch.

(* pattern 00000000 is 1900-01-01T00:00:00Z, pattern FFFFFFFF is 2036-02-07T06:28:15Z *)
Theorem C17_time_limits :
  civil_of_unix (0 - rfc868_offset) = (1900, 1, 1, 0, 0, 0)%Z /\
  civil_of_unix (4294967295 - rfc868_offset) = (2036, 2, 7, 6, 28, 15)%Z.
Proof. exact (conj time_lower_limit time_upper_limit). Qed.
Print Assumptions C17_time_limits.

(* the decoded Time value (n - offset), read on the civil calendar, is the valid date and time
   of day lying exactly n seconds after 1900-01-01T00:00:00 *)
Theorem C17_time_seconds_since_1900 : forall (n : N) y m d hh mm ss,
  civil_of_unix (Z.of_N n - rfc868_offset) = (y, m, d, hh, mm, ss) ->
  (valid_date y m d /\ 0 <= hh < 24 /\ 0 <= mm < 60 /\ 0 <= ss < 60 /\
   Z.of_N n = (days_from_civil y m d - days_from_civil 1900 1 1) * 86400 + hh * 3600 + mm * 60 + ss)%Z.
Proof. exact time_calendar_reading. Qed.
Print Assumptions C17_time_seconds_since_1900.

Theorem C17_time_seconds_since_1900_conv : forall (n : N) y m d hh mm ss,
  (valid_date y m d -> 0 <= hh < 24 -> 0 <= mm < 60 -> 0 <= ss < 60 ->
   Z.of_N n = (days_from_civil y m d - days_from_civil 1900 1 1) * 86400 + hh * 3600 + mm * 60 + ss ->
   civil_of_unix (Z.of_N n - rfc868_offset) = (y, m, d, hh, mm, ss))%Z.
Proof. exact time_calendar_complete. Qed.
Print Assumptions C17_time_seconds_since_1900_conv.

(* the calendar used above: day number <-> civil date is a bijection, for all years *)
Theorem C17_civil_roundtrip : forall y m d,
  valid_date y m d -> civil_from_days (days_from_civil y m d) = (y, m, d).
Proof. exact civil_roundtrip. Qed.
Print Assumptions C17_civil_roundtrip.

Theorem C17_days_roundtrip : forall z,
  match civil_from_days z with (y, m, d) => valid_date y m d /\ days_from_civil y m d = z end.
Proof. exact days_roundtrip. Qed.
Print Assumptions C17_days_roundtrip.
