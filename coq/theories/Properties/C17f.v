(* C17, IEEE-754 part.  The model stores a Float32 / Float64 value as its bit pattern; here
   the pattern is tied to the IEEE-754 binary32 / binary64 datum of the Flocq library: every
   pattern denotes exactly one datum (NaN payloads included) and converting back gives the
   same pattern.  Kept apart from C17.v because Flocq rests on the Coq Reals, whose
   standard-library axioms show up in Print Assumptions. *)
From Flocq Require Import IEEE754.Binary IEEE754.Bits.
Require Import DV.Base.Bytes DV.Model.Leaf DV.Float.Ieee754.

Theorem C17_ieee754_single :
  (forall x, (0 <= x < 4294967296)%Z -> bits_of_b32 (b32_of_bits x) = x) /\
  (forall f, b32_of_bits (bits_of_b32 f) = f) /\
  (forall n : N, (n < 4294967296)%N -> bits_of_b32 (b32_of_bits (Z.of_N n)) = Z.of_N n).
Proof. exact (conj f32_bits_bij (conj f32_bits_bij' f32_model_link)). Qed.
Print Assumptions C17_ieee754_single.

Theorem C17_ieee754_double :
  (forall x, (0 <= x < 18446744073709551616)%Z -> bits_of_b64 (b64_of_bits x) = x) /\
  (forall f, b64_of_bits (bits_of_b64 f) = f) /\
  (forall n : N, (n < 18446744073709551616)%N -> bits_of_b64 (b64_of_bits (Z.of_N n)) = Z.of_N n).
Proof. exact (conj f64_bits_bij (conj f64_bits_bij' f64_model_link)). Qed.
Print Assumptions C17_ieee754_double.

(* the Float32 / Float64 values of the model are in one-to-one correspondence with the
   binary32 / binary64 data *)
Theorem C17_ieee754_single_iso :
  (forall n, leaf_wire (LF32 n) = true -> leaf_bits_of_f32 (f32_of_leaf_bits n) = n) /\
  (forall f, leaf_wire (LF32 (leaf_bits_of_f32 f)) = true /\ f32_of_leaf_bits (leaf_bits_of_f32 f) = f).
Proof. exact f32_leaf_iso. Qed.
Print Assumptions C17_ieee754_single_iso.

Theorem C17_ieee754_double_iso :
  (forall n, leaf_wire (LF64 n) = true -> leaf_bits_of_f64 (f64_of_leaf_bits n) = n) /\
  (forall f, leaf_wire (LF64 (leaf_bits_of_f64 f)) = true /\ f64_of_leaf_bits (leaf_bits_of_f64 f) = f).
Proof. exact f64_leaf_iso. Qed.
Print Assumptions C17_ieee754_double_iso.

(* octets -> datum -> octets *)
Theorem C17_ieee754_single_octets : forall b0 b1 b2 b3,
  bits_of_b32 (f32_of_leaf_bits (un_be [b0; b1; b2; b3])) = Z.of_N (un_be [b0; b1; b2; b3]) /\
  be32 (leaf_bits_of_f32 (f32_of_leaf_bits (un_be [b0; b1; b2; b3]))) = [b0; b1; b2; b3].
Proof. exact f32_octets_link. Qed.
Print Assumptions C17_ieee754_single_octets.

Theorem C17_ieee754_double_octets : forall b0 b1 b2 b3 b4 b5 b6 b7,
  bits_of_b64 (f64_of_leaf_bits (un_be [b0; b1; b2; b3; b4; b5; b6; b7])) =
    Z.of_N (un_be [b0; b1; b2; b3; b4; b5; b6; b7]) /\
  be64 (leaf_bits_of_f64 (f64_of_leaf_bits (un_be [b0; b1; b2; b3; b4; b5; b6; b7]))) =
    [b0; b1; b2; b3; b4; b5; b6; b7].
Proof. exact f64_octets_link. Qed.
Print Assumptions C17_ieee754_double_octets.
