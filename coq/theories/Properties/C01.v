Require Import DV.Base.Bytes.
Theorem C01_placeholder : True.
Proof. exact I. Qed.
Print Assumptions C01_placeholder.
