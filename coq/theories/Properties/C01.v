(* C01: encoded bytes are exactly the RFC 6733 wire format.  Proofs: Proofs/BuildFacts.v, AvpFacts.v *)
Require Import DV.Base.Bytes DV.Base.Utf8 DV.Model.Leaf DV.Spec.Wire DV.Model.Avp DV.Model.Message
  DV.Model.Dict DV.Model.Build DV.Proofs.AvpFacts DV.Proofs.DecSound DV.Proofs.BuildFacts.
Local Open Scope N_scope.

(* every construction history: new + add / add_avp / add_avp_by_name / re-add of a cloned AVP /
   group cloned out and re-wrapped, starting from new() or from a decoded frame; in the wire
   domain the encoder emits exactly the reference encoding of the tree, and the length the
   message reports about itself is the number of octets *)
Theorem C01_encode_is_rfc6733 : forall lim ds s ops m0,
  dswf ds -> hstart_wf s -> hops_wf ops ->
  hstart_msg lim ds s = Ok m0 -> msg_nomm m0 ->
  let m := fst (hrun ds m0 ops) in
  msg_wireb m = true ->
  enc_msg m = Ok (spec_msg (abs_msg m)) /\ m_len m = blen (spec_msg (abs_msg m)).
Proof. exact history_encodes_rfc6733. Qed.
Print Assumptions C01_encode_is_rfc6733.

(* per AVP, for any tree with the natural stored lengths *)
Theorem C01_avp_is_rfc6733 : forall a, consistent a -> rep a ->
  enc_avp a = spec_avp (abs a) /\ blen (enc_avp a) = a_len a + a_pad a.
Proof. exact enc_is_spec. Qed.
Print Assumptions C01_avp_is_rfc6733.

(* what the constructors establish, step by step *)
Theorem C01_history_invariant : forall ds, dswf ds -> forall ops m, good m -> hops_wf ops -> good (fst (hrun ds m ops)).
Proof. exact hrun_good. Qed.
Print Assumptions C01_history_invariant.

Theorem C01_decoded_start_invariant : forall lim d bs m, dec_msg lim d bs = Ok m -> complete bs -> msg_nomm m -> good m.
Proof. exact decoded_good. Qed.
Print Assumptions C01_decoded_start_invariant.

(* the layout the reference encoder stands for (RFC 6733 sections 3 and 4.1): V set exactly when a
   vendor id is present, the 24-bit length excludes padding, zero padding to a 4-octet boundary,
   a group's data is the concatenation of its members *)
Theorem C01_layout_avp : forall c vd m p v,
  spec_avp (SAvp c vd m p v) =
  be32 c ++ [b_of_N ((if is_some vd then 128 else 0) + (if m then 64 else 0) + (if p then 32 else 0))]
    ++ be24 ((match vd with Some _ => 12 | None => 8 end) + blen (spec_val v))
    ++ (match vd with Some x => be32 x | None => [] end)
    ++ spec_val v ++ zeros ((4 - blen (spec_val v) mod 4) mod 4).
Proof. intros c vd m p v; exact eq_refl. Qed.
Print Assumptions C01_layout_avp.

Theorem C01_layout_group : forall ms, spec_val (SGrp ms) = flat_map spec_avp ms.
Proof. intros ms; exact eq_refl. Qed.
Print Assumptions C01_layout_group.

Theorem C01_layout_msg : forall m,
  spec_msg m =
  [b_of_N (s_ver m)] ++ be24 (20 + blen (flat_map spec_avp (s_avps m))) ++ [b_of_N (s_flags m)] ++ be24 (s_cmd m)
    ++ be32 (s_app m) ++ be32 (s_hbh m) ++ be32 (s_e2e m) ++ flat_map spec_avp (s_avps m).
Proof. intros m; exact (eq_sym (app_assoc _ _ _)). Qed.
Print Assumptions C01_layout_msg.
