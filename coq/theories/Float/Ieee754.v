(* Link between the model's representation of Float32 / Float64 values (the IEEE-754 bit
   pattern, as an N) and the IEEE-754 binary32 / binary64 data of the Flocq library.
   THIS FILE IS THE ONLY ONE THAT IMPORTS FLOCQ; Flocq is built on the Coq Reals, so the
   results below depend on the standard-library axioms of the classical real numbers
   (see the Print Assumptions output in Properties/C17f.v).  Nothing else in the
   development depends on this file. *)
From Flocq Require Import IEEE754.Binary IEEE754.Bits.
Require Import DV.Base.Bytes DV.Model.Leaf.

(* every 32-bit pattern denotes exactly one binary32 datum (zeros, subnormals, normals,
   infinities, NaNs with their payloads), and that datum has this pattern *)
Lemma f32_bits_bij : forall x, (0 <= x < 4294967296)%Z -> bits_of_b32 (b32_of_bits x) = x.
Proof. intros x H. unfold bits_of_b32, b32_of_bits. apply bits_of_binary_float_of_bits. exact H. Qed.

Lemma f32_bits_bij' : forall f, b32_of_bits (bits_of_b32 f) = f.
Proof. intros f. exact (binary_float_of_bits_of_binary_float 23 8 eq_refl eq_refl eq_refl f). Qed.

Lemma f32_bits_range : forall f, (0 <= bits_of_b32 f < 4294967296)%Z.
Proof. intros f. exact (bits_of_binary_float_range 23 8 eq_refl eq_refl f). Qed.

Lemma f64_bits_bij : forall x, (0 <= x < 18446744073709551616)%Z -> bits_of_b64 (b64_of_bits x) = x.
Proof. intros x H. unfold bits_of_b64, b64_of_bits. apply bits_of_binary_float_of_bits. exact H. Qed.

Lemma f64_bits_bij' : forall f, b64_of_bits (bits_of_b64 f) = f.
Proof. intros f. exact (binary_float_of_bits_of_binary_float 52 11 eq_refl eq_refl eq_refl f). Qed.

Lemma f64_bits_range : forall f, (0 <= bits_of_b64 f < 18446744073709551616)%Z.
Proof. intros f. exact (bits_of_binary_float_range 52 11 eq_refl eq_refl f). Qed.

(* on the model's representation *)
Lemma f32_model_link : forall n : N, (n < 4294967296)%N ->
  bits_of_b32 (b32_of_bits (Z.of_N n)) = Z.of_N n.
Proof. intros n H. apply f32_bits_bij. lia. Qed.

Lemma f64_model_link : forall n : N, (n < 18446744073709551616)%N ->
  bits_of_b64 (b64_of_bits (Z.of_N n)) = Z.of_N n.
Proof. intros n H. apply f64_bits_bij. lia. Qed.

(* the Float32 values of the model (leaf_wire (LF32 n) = true) are in one-to-one
   correspondence with the binary32 data *)
Definition f32_of_leaf_bits (n : N) : binary32 := b32_of_bits (Z.of_N n).
Definition leaf_bits_of_f32 (f : binary32) : N := Z.to_N (bits_of_b32 f).
Definition f64_of_leaf_bits (n : N) : binary64 := b64_of_bits (Z.of_N n).
Definition leaf_bits_of_f64 (f : binary64) : N := Z.to_N (bits_of_b64 f).

Lemma f32_leaf_iso :
  (forall n, leaf_wire (LF32 n) = true -> leaf_bits_of_f32 (f32_of_leaf_bits n) = n) /\
  (forall f, leaf_wire (LF32 (leaf_bits_of_f32 f)) = true /\ f32_of_leaf_bits (leaf_bits_of_f32 f) = f).
Proof.
  unfold leaf_bits_of_f32, f32_of_leaf_bits, leaf_wire. cbn [leaf_rep]. split.
  - intros n H. rewrite andb_true_r in H. apply N.ltb_lt in H. rewrite f32_model_link by exact H. lia.
  - intros f. pose proof (f32_bits_range f) as R. split.
    + rewrite andb_true_r. apply N.ltb_lt. lia.
    + rewrite Z2N.id by lia. apply f32_bits_bij'.
Qed.

Lemma f64_leaf_iso :
  (forall n, leaf_wire (LF64 n) = true -> leaf_bits_of_f64 (f64_of_leaf_bits n) = n) /\
  (forall f, leaf_wire (LF64 (leaf_bits_of_f64 f)) = true /\ f64_of_leaf_bits (leaf_bits_of_f64 f) = f).
Proof.
  unfold leaf_bits_of_f64, f64_of_leaf_bits, leaf_wire. cbn [leaf_rep]. split.
  - intros n H. rewrite andb_true_r in H. apply N.ltb_lt in H. rewrite f64_model_link by exact H. lia.
  - intros f. pose proof (f64_bits_range f) as R. split.
    + rewrite andb_true_r. apply N.ltb_lt. lia.
    + rewrite Z2N.id by lia. apply f64_bits_bij'.
Qed.

(* the four octets b0 b1 b2 b3 (most significant first) denote the binary32 datum whose
   IEEE-754 interchange encoding is the 32-bit string b0 b1 b2 b3, and that datum encodes
   back to the same octets *)
Lemma f32_octets_link : forall b0 b1 b2 b3,
  bits_of_b32 (f32_of_leaf_bits (un_be [b0; b1; b2; b3])) = Z.of_N (un_be [b0; b1; b2; b3]) /\
  be32 (leaf_bits_of_f32 (f32_of_leaf_bits (un_be [b0; b1; b2; b3]))) = [b0; b1; b2; b3].
Proof.
  intros. pose proof (un_be4_lt b0 b1 b2 b3) as H. unfold f32_of_leaf_bits, leaf_bits_of_f32.
  rewrite f32_model_link by exact H. split; [reflexivity|].
  rewrite N2Z.id. apply be32_un.
Qed.

Lemma f64_octets_link : forall b0 b1 b2 b3 b4 b5 b6 b7,
  bits_of_b64 (f64_of_leaf_bits (un_be [b0; b1; b2; b3; b4; b5; b6; b7])) =
    Z.of_N (un_be [b0; b1; b2; b3; b4; b5; b6; b7]) /\
  be64 (leaf_bits_of_f64 (f64_of_leaf_bits (un_be [b0; b1; b2; b3; b4; b5; b6; b7]))) =
    [b0; b1; b2; b3; b4; b5; b6; b7].
Proof.
  intros. pose proof (un_be8_lt b0 b1 b2 b3 b4 b5 b6 b7) as H. unfold f64_of_leaf_bits, leaf_bits_of_f64.
  rewrite f64_model_link by exact H. split; [reflexivity|].
  rewrite N2Z.id. apply be64_un.
Qed.
