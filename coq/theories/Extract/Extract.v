(* Extraction of the executable model and specification.  ExtrOcamlBasic only: bool, option,
   unit, list, prod, sumbool, sumor map to OCaml's; numbers and octets stay Coq's inductives.
   No Extract Constant. *)
Require Import DV.Base.Bytes DV.Base.Utf8 DV.Model.Leaf DV.Spec.Wire DV.Model.Avp
  DV.Model.Message DV.Model.Dict DV.Model.Build DV.Model.IoWrite DV.Model.Stream DV.Model.Server DV.Model.Client DV.Model.ClientMulti DV.Model.ClientObj DV.Model.Tls DV.Model.Listener.
Require Extraction.
Require Import ExtrOcamlBasic.
Extraction Language OCaml.
Extraction "model.ml"
  Byte.of_N Byte.to_N N.of_nat N.to_nat N.add N.mul N.sub N.div N.modulo N.eqb N.ltb N.leb
  Z.add Z.mul Z.sub Z.opp Z.of_N Z.to_N Z.eqb Z.ltb
  utf8_valid leaf_wire leaf_rep leaf_ty leaf_len enc_leaf dec_leaf
  spec_avp spec_msg chk_msg chk_avps sdepth_list
  mk_avp mk_avp_fl enc_avp enc_ok abs abs_val dec_avp dec_members nommb wireb msg_wireb depth_list
  msg_new msg_add msg_add_avp enc_msg enc_msg_raw msg_enc_ok dec_msg abs_msg get_avp get_typed
  known_cmd known_app
  ins lookup by_name dict_fn drun dstep dict_empty ty_of_name must_has_m def_of_x nm_get
  eval_a eval_v hstep hrun hstart_msg from_name get_avps group_members
  enc_to caps_posb write_chunks msg_chunks
  read_exact codec_decode codec_decode_legacy decode_n bytes_of all_bytes fault_free err_cut write_all codec_encode accepting
  serve serve_loop answer_octets whole_frames
  DV.Model.Client.step DV.Model.Client.init DV.Model.Client.run DV.Model.Client.outcomes DV.Model.Client.step_legacy all_okb
  mstep minit mrun cproj mstep_legacy shinit shrun
  ostep_gen late_ok late_d13 oinit send_outcomes sched_tlsfail sched_overlap sched_failed
  domain_of domain_legacy model_outcome spec_outcome all_cells lstep lstep_legacy lrun linit crun proj.
