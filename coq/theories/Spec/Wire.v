(* The independent RFC 6733 layer.
   - an abstract AVP tree that stores no lengths,
   - a reference encoder that computes every length from the data (sections 3, 4.1, 4.4),
   - a declarative wire relation in which padding octets and the five reserved AVP flag
     bits are existentially free,
   - an executable checker for that relation (structural on the tree).
   Nothing here mentions cursors, stored lengths or the Rust code's bookkeeping.
   The per-format value images [enc_leaf] (section 4.2/4.3) are shared with the model;
   they are anchored to the RFC by the C17 theorems. *)
Require Import DV.Base.Bytes DV.Model.Leaf.
Local Open Scope N_scope.

Inductive sval :=
| SLeaf (l : leaf)
| SGrp (ms : list savp)
with savp := SAvp (code : N) (vendor : option N) (mf pf : bool) (v : sval).

Record smsg := MkSMsg {
  s_ver : N; s_flags : N; s_cmd : N; s_app : N; s_hbh : N; s_e2e : N; s_avps : list savp }.

Definition dict := N -> option N -> option ty.

Definition is_some {A} (o : option A) : bool := match o with Some _ => true | None => false end.
Definition hdr (vd : option N) : N := match vd with Some _ => 12 | None => 8 end.
Definition optbe32 (vd : option N) : list byte := match vd with Some x => be32 x | None => [] end.
Definition flags_byte (v m p : bool) : N :=
  (if v then 128 else 0) + (if m then 64 else 0) + (if p then 32 else 0).

Definition sty_of (v : sval) : ty := match v with SLeaf l => leaf_ty l | SGrp _ => TGrouped end.

(* ---------- reference encoder ---------- *)
Fixpoint spec_avp (a : savp) : list byte :=
  match a with
  | SAvp c vd m p v =>
      let data := spec_val v in
      be32 c ++ [b_of_N (flags_byte (is_some vd) m p)] ++ be24 (hdr vd + blen data)
        ++ optbe32 vd ++ data ++ zeros (pad4 (blen data))
  end
with spec_val (v : sval) : list byte :=
  match v with
  | SLeaf l => enc_leaf l
  | SGrp ms => flat_map spec_avp ms
  end.

Definition spec_body (l : list savp) : list byte := flat_map spec_avp l.

Definition spec_hdr (m : smsg) (total : N) : list byte :=
  [b_of_N (s_ver m)] ++ be24 total ++ [b_of_N (s_flags m)] ++ be24 (s_cmd m)
    ++ be32 (s_app m) ++ be32 (s_hbh m) ++ be32 (s_e2e m).

Definition spec_msg (m : smsg) : list byte :=
  let body := spec_body (s_avps m) in
  spec_hdr m (20 + blen body) ++ body.

(* ---------- declarative wire relation ---------- *)
Definition flags_ok (fl : byte) (v m p : bool) : Prop :=
  (128 <=? Byte.to_N fl) = v /\ (64 <=? Byte.to_N fl mod 128) = m /\ (32 <=? Byte.to_N fl mod 64) = p.
Definition vd_ok (vd : option N) : Prop := match vd with Some x => x < 4294967296 | None => True end.

Inductive wire_avp (d : dict) : savp -> list byte -> Prop :=
| W : forall c vd m p v data padb fl,
    c < 4294967296 -> vd_ok vd ->
    wire_val d v data ->
    hdr vd + blen data < 16777216 ->
    blen padb = pad4 (blen data) ->
    flags_ok fl (is_some vd) m p ->
    d c vd = Some (sty_of v) ->
    wire_avp d (SAvp c vd m p v)
             (be32 c ++ [fl] ++ be24 (hdr vd + blen data) ++ optbe32 vd ++ data ++ padb)
with wire_val (d : dict) : sval -> list byte -> Prop :=
| WLeaf : forall l, leaf_wire l = true -> wire_val d (SLeaf l) (enc_leaf l)
| WGrp : forall ms data, wire_avps d ms data -> wire_val d (SGrp ms) data
with wire_avps (d : dict) : list savp -> list byte -> Prop :=
| WNil : wire_avps d [] []
| WCons : forall a bs ms rest, wire_avp d a bs -> wire_avps d ms rest -> wire_avps d (a :: ms) (bs ++ rest).

Scheme wire_avp_mut := Induction for wire_avp Sort Prop
  with wire_val_mut := Induction for wire_val Sort Prop
  with wire_avps_mut := Induction for wire_avps Sort Prop.
Combined Scheme wire_mutind from wire_avp_mut, wire_val_mut, wire_avps_mut.

Definition hdr_ranges (m : smsg) : Prop :=
  s_ver m < 256 /\ s_flags m < 256 /\ s_cmd m < 16777216 /\ s_app m < 4294967296
  /\ s_hbh m < 4294967296 /\ s_e2e m < 4294967296.

Definition wire_msg (d : dict) (m : smsg) (bs : list byte) : Prop :=
  exists body, wire_avps d (s_avps m) body /\ hdr_ranges m /\ 20 + blen body < 16777216
               /\ bs = spec_hdr m (20 + blen body) ++ body.

(* ---------- nesting depth of a tree ---------- *)
Fixpoint sdepth (a : savp) : nat :=
  match a with SAvp _ _ _ _ v => sdepth_val v end
with sdepth_val (v : sval) : nat :=
  match v with
  | SLeaf _ => O
  | SGrp ms => S ((fix go (l : list savp) : nat := match l with [] => O | x :: xs => Nat.max (sdepth x) (go xs) end) ms)
  end.
Definition sdepth_list : list savp -> nat :=
  fix go (l : list savp) : nat := match l with [] => O | x :: xs => Nat.max (sdepth x) (go xs) end.

(* ---------- custom induction principle for trees ---------- *)
Section SavpInd.
  Variable P : savp -> Prop.
  Variable Q : sval -> Prop.
  Hypothesis HL : forall l, Q (SLeaf l).
  Hypothesis HG : forall ms, Forall P ms -> Q (SGrp ms).
  Hypothesis HA : forall c vd m p v, Q v -> P (SAvp c vd m p v).
  Fixpoint savp_ind' (a : savp) : P a :=
    match a with SAvp c vd m p v => HA c vd m p v (sval_ind' v) end
  with sval_ind' (v : sval) : Q v :=
    match v with
    | SLeaf l => HL l
    | SGrp ms => HG ms ((fix go (l : list savp) : Forall P l :=
                          match l with [] => Forall_nil _ | x :: xs => Forall_cons _ (savp_ind' x) (go xs) end) ms)
    end.
End SavpInd.

(* ---------- executable checker for the wire relation (structural on the tree) ---------- *)
Fixpoint list_beq (a b : list byte) : bool :=
  match a, b with
  | [], [] => true
  | x :: a', y :: b' => Byte.eqb x y && list_beq a' b'
  | _, _ => false
  end.

Definition opt_n_eqb (a b : option N) : bool :=
  match a, b with Some x, Some y => x =? y | None, None => true | _, _ => false end.

Definition dict_says (d : dict) (c : N) (vd : option N) (t : ty) : bool :=
  match d c vd with Some t' => ty_eqb t' t | None => false end.

(* [chk_avp d a r] = Some rest when a prefix of [r] is a wire image of [a] *)
Fixpoint chk_avp (d : dict) (a : savp) (r : list byte) {struct a} : option (list byte) :=
  match a with
  | SAvp c vd m p v =>
    match r with
    | b0 :: b1 :: b2 :: b3 :: fl :: l0 :: l1 :: l2 :: r1 =>
      let len := un_be [l0; l1; l2] in
      let flv := Byte.to_N fl in
      if negb ((un_be [b0; b1; b2; b3] =? c) && (c <? 4294967296)
               && Bool.eqb (128 <=? flv) (is_some vd)
               && Bool.eqb (64 <=? flv mod 128) m && Bool.eqb (32 <=? flv mod 64) p) then None else
      match (match vd with
             | Some x => match r1 with
                         | v0 :: v1 :: v2 :: v3 :: r2 =>
                             if (un_be [v0; v1; v2; v3] =? x) && (x <? 4294967296) then Some r2 else None
                         | _ => None end
             | None => Some r1 end) with
      | None => None
      | Some r2 =>
        if len <? hdr vd then None else
        match take (len - hdr vd) r2 with
        | None => None
        | Some (data, r3) =>
          if dict_says d c vd (sty_of v) && chk_val d v data then
            match take (pad4 (len - hdr vd)) r3 with
            | Some (_, r4) => Some r4
            | None => None
            end
          else None
        end
      end
    | _ => None
    end
  end
with chk_val (d : dict) (v : sval) (data : list byte) {struct v} : bool :=
  match v with
  | SLeaf l => leaf_wire l && list_beq data (enc_leaf l)
  | SGrp ms =>
      (fix go (ms : list savp) (data : list byte) {struct ms} : bool :=
         match ms with
         | [] => match data with [] => true | _ => false end
         | a :: ms' => match chk_avp d a data with Some rest => go ms' rest | None => false end
         end) ms data
  end.

Definition chk_avps (d : dict) : list savp -> list byte -> bool :=
  fix go (ms : list savp) (data : list byte) {struct ms} : bool :=
    match ms with
    | [] => match data with [] => true | _ => false end
    | a :: ms' => match chk_avp d a data with Some rest => go ms' rest | None => false end
    end.

Definition chk_msg (d : dict) (m : smsg) (bs : list byte) : bool :=
  match bs with
  | v :: l0 :: l1 :: l2 :: fl :: c0 :: c1 :: c2 :: a0 :: a1 :: a2 :: a3
      :: h0 :: h1 :: h2 :: h3 :: e0 :: e1 :: e2 :: e3 :: body =>
      (Byte.to_N v =? s_ver m) && (un_be [l0; l1; l2] =? 20 + blen body)
      && (Byte.to_N fl =? s_flags m) && (un_be [c0; c1; c2] =? s_cmd m)
      && (un_be [a0; a1; a2; a3] =? s_app m) && (un_be [h0; h1; h2; h3] =? s_hbh m)
      && (un_be [e0; e1; e2; e3] =? s_e2e m)
      && chk_avps d (s_avps m) body
  | _ => false
  end.
