(* The PRE-REPAIR behaviour of the library, defect by defect, as executable definitions, each
   with a machine-checked witness that the property proved for the repaired model FAILS for
   it.  Every legacy definition reverts exactly one repair (D1 .. D6) and is otherwise the
   definition of Model/; nothing imports this file except Properties/Legacy.v, which
   restates the witnesses.

   D1  Address::length() for E.164 did not count the 2-octet address family
   D2  Avp::decode_from: `header.length - header_length` unchecked (u32, overflow checks on)
   D3  Avp::decode_from <-> Grouped::decode_from had no nesting limit
   D4  Avp::encode_to: `let _ = match &self.value { .. avp.encode_to(writer) }` drops the Result
   D5  Time::encode_to checks the upper bound only; a time before 1900 wraps (`as u32`)
   D6  length fields of 2^24 or more silently truncated by `to_be_bytes()[1..4]` *)
Require Import DV.Base.Bytes DV.Base.Utf8 DV.Model.Leaf DV.Spec.Wire DV.Model.Avp DV.Model.Message
  DV.Model.IoWrite
  DV.Proofs.LeafFacts DV.Proofs.AvpFacts DV.Proofs.DecTotal DV.Proofs.DecSound DV.Proofs.DecComplete
  DV.Proofs.BuildFacts DV.Proofs.DecExtra.
Local Open Scope N_scope.

(* the 24-bit length field of a message image / of an AVP image *)
Definition msg_len_field (bs : list byte) : N :=
  match bs with _ :: l0 :: l1 :: l2 :: _ => un_be [l0; l1; l2] | _ => 0 end.
Definition avp_len_field (bs : list byte) : N :=
  match bs with _ :: _ :: _ :: _ :: _ :: l0 :: l1 :: l2 :: _ => un_be [l0; l1; l2] | _ => 0 end.

(* ====================================================================================== *)
(* D1: Address::length() for the E.164 variant returned s.len()                            *)
(* ====================================================================================== *)
Definition leaf_len_legacy (l : leaf) : N :=
  match l with
  | LAddrE164 s => blen s                     (* pre-repair: the address family is not counted *)
  | _ => leaf_len l
  end.
Definition val_len_legacy (v : value) : N :=
  match v with VLeaf l => leaf_len_legacy l | VGrp ms => members_len ms end.
(* Avp::new on top of the pre-repair length() *)
Definition mk_avp_legacy (c : N) (vd : option N) (m p : bool) (v : value) : avp :=
  MkAvp c vd m p (hdr vd + val_len_legacy v) (pad4 (val_len_legacy v)) v.

(* the E.164 number "123" *)
Definition d1_avp : avp := mk_avp_legacy 8 None true false (VLeaf (LAddrE164 [x31; x32; x33])).
Definition d1_msg : msg := msg_add (msg_new 257 0 128 1 2) d1_avp.

(* what C01_avp_is_rfc6733 concludes fails: 14 octets are emitted, 11 + 1 are reported *)
Lemma D1_avp_witness :
  exists a, a = mk_avp_legacy 8 None true false (VLeaf (LAddrE164 [x31; x32; x33]))
            /\ blen (enc_avp a) <> a_len a + a_pad a.
Proof. exists d1_avp. split; [reflexivity|]. vm_compute. discriminate. Qed.

(* for every E.164 value, whatever the other fields: always two octets off *)
Lemma D1_avp_general c vd m p s :
  blen (enc_avp (mk_avp_legacy c vd m p (VLeaf (LAddrE164 s))))
  = a_len (mk_avp_legacy c vd m p (VLeaf (LAddrE164 s))) + a_pad (mk_avp_legacy c vd m p (VLeaf (LAddrE164 s))) + 2.
Proof.
  unfold mk_avp_legacy. cbn [enc_avp enc_val enc_leaf val_len_legacy leaf_len_legacy a_len a_pad].
  rewrite !blen_app, blen_be32, blen_be24, blen_zeros.
  rewrite !blen_cons, blen_nil. pose proof (blen_optbe32 vd). lia.
Qed.

(* message level (what C01_encode_is_rfc6733 concludes fails): the length the message
   reports about itself, which is also what its 24-bit length field says, is not the number
   of octets produced; the frame is not `complete` *)
Lemma D1_msg_witness :
  exists m bs, m = msg_add (msg_new 257 0 128 1 2)
                           (mk_avp_legacy 8 None true false (VLeaf (LAddrE164 [x31; x32; x33])))
               /\ enc_msg_raw m = bs /\ enc_msg m = Ok bs
               /\ m_len m <> blen bs /\ msg_len_field bs <> blen bs /\ ~ complete bs.
Proof.
  exists d1_msg. eexists. split; [reflexivity|]. split; [vm_compute; reflexivity|].
  split; [vm_compute; reflexivity|]. split; [vm_compute; discriminate|].
  split; vm_compute; discriminate.
Qed.

(* ====================================================================================== *)
(* D2: `header.length - header_length` without a check                                     *)
(* ====================================================================================== *)
Fixpoint dec_avp_legacy_d2 (f : nat) (lim : nat) (d : dict) (r : list byte) {struct f}
  : outcome (avp * list byte) :=
  match f with
  | O => OutOfFuel
  | S f' =>
    match dec_header r with
    | None => Err
    | Some (code, mflag, pflag, len, vd, r2) =>
      let hl := hdr vd in
      if len <? hl then Panic else      (* pre-repair: u32 subtraction, "attempt to subtract with overflow" *)
      let vl := len - hl in
      let fin (v : value) (r3 : list byte) :=
          Ok (MkAvp code vd mflag pflag len (pad4 vl) v, skipn (N.to_nat (pad4 vl)) r3) in
      match d code vd with
      | None => Err
      | Some t =>
          if is_leaf_ty t then
            match dec_leaf t vl r2 with
            | Some (l, r3) => fin (VLeaf l) r3
            | None => Err
            end
          else
            match t with
            | TGrouped =>
                match lim with
                | O => Err
                | S lim' =>
                  match dec_members_legacy_d2 f' lim' d vl 0 r2 with
                  | Ok (l, r3) => fin (VGrp l) r3
                  | Err => Err | Panic => Panic | OutOfFuel => OutOfFuel
                  end
                end
            | _ => Err
            end
      end
    end
  end
with dec_members_legacy_d2 (f : nat) (lim : nat) (d : dict) (len off : N) (r : list byte) {struct f}
  : outcome (list avp * list byte) :=
  match f with
  | O => OutOfFuel
  | S f' =>
    if off <? len then
      match dec_avp_legacy_d2 f' lim d r with
      | Ok (a, r') =>
          let off' := off + a_len a + a_pad a in
          if 4294967296 <=? off' then Panic else
          match dec_members_legacy_d2 f' lim d len off' r' with
          | Ok (l, r'') => Ok (a :: l, r'')
          | Err => Err | Panic => Panic | OutOfFuel => OutOfFuel
          end
      | Err => Err | Panic => Panic | OutOfFuel => OutOfFuel
      end
    else if off =? len then Ok ([], r) else Err
  end.

Definition dec_msg_legacy_d2 (lim : nat) (d : dict) (bs : list byte) : outcome msg :=
  match bs with
  | v :: l0 :: l1 :: l2 :: fl :: c0 :: c1 :: c2 :: a0 :: a1 :: a2 :: a3
      :: h0 :: h1 :: h2 :: h3 :: e0 :: e1 :: e2 :: e3 :: rest =>
      let total := un_be [l0; l1; l2] in
      let cmd := un_be [c0; c1; c2] in
      let app := un_be [a0; a1; a2; a3] in
      if known_cmd cmd && known_app app then
        match dec_members_legacy_d2 (S (S (length rest))) lim d total 20 rest with
        | Ok (avps, _) =>
            Ok (MkMsg (Byte.to_N v) total (Byte.to_N fl) cmd app
                      (un_be [h0; h1; h2; h3]) (un_be [e0; e1; e2; e3]) avps)
        | Err => Err | Panic => Panic | OutOfFuel => OutOfFuel
        end
      else Err
  | _ => Err
  end.

(* Credit-Control request, one AVP 415 (CC-Request-Number) declaring AVP length 0 *)
Definition d2_dict : dict :=
  fun c vd => if c =? 415 then match vd with None => Some TU32 | Some _ => None end else None.
Definition d2_frame : list byte :=
  [x01;x00;x00;x1c;x80;x00;x01;x10;x00;x00;x00;x04;x00;x00;x00;x01;x00;x00;x00;x02;
   x00;x00;x01;x9f;x40;x00;x00;x00].

(* what C04_never_panics states fails for the legacy decoder; the repaired one answers Err *)
Lemma D2_witness :
  exists d bs, dec_msg_legacy_d2 16 d bs = Panic /\ dec_msg 16 d bs = Err /\ complete bs.
Proof.
  exists d2_dict, d2_frame. split; [vm_compute; reflexivity|]. split; vm_compute; reflexivity.
Qed.

(* ====================================================================================== *)
(* D3: no nesting limit                                                                    *)
(* ====================================================================================== *)
Fixpoint dec_avp_legacy_d3 (f : nat) (d : dict) (r : list byte) {struct f}
  : outcome (avp * list byte) :=
  match f with
  | O => OutOfFuel
  | S f' =>
    match dec_header r with
    | None => Err
    | Some (code, mflag, pflag, len, vd, r2) =>
      let hl := hdr vd in
      if len <? hl then Err else
      let vl := len - hl in
      let fin (v : value) (r3 : list byte) :=
          Ok (MkAvp code vd mflag pflag len (pad4 vl) v, skipn (N.to_nat (pad4 vl)) r3) in
      match d code vd with
      | None => Err
      | Some t =>
          if is_leaf_ty t then
            match dec_leaf t vl r2 with
            | Some (l, r3) => fin (VLeaf l) r3
            | None => Err
            end
          else
            match t with
            | TGrouped =>                      (* pre-repair: a Grouped AVP is always entered *)
                match dec_members_legacy_d3 f' d vl 0 r2 with
                | Ok (l, r3) => fin (VGrp l) r3
                | Err => Err | Panic => Panic | OutOfFuel => OutOfFuel
                end
            | _ => Err
            end
      end
    end
  end
with dec_members_legacy_d3 (f : nat) (d : dict) (len off : N) (r : list byte) {struct f}
  : outcome (list avp * list byte) :=
  match f with
  | O => OutOfFuel
  | S f' =>
    if off <? len then
      match dec_avp_legacy_d3 f' d r with
      | Ok (a, r') =>
          let off' := off + a_len a + a_pad a in
          if 4294967296 <=? off' then Panic else
          match dec_members_legacy_d3 f' d len off' r' with
          | Ok (l, r'') => Ok (a :: l, r'')
          | Err => Err | Panic => Panic | OutOfFuel => OutOfFuel
          end
      | Err => Err | Panic => Panic | OutOfFuel => OutOfFuel
      end
    else if off =? len then Ok ([], r) else Err
  end.

Definition dec_msg_legacy_d3 (d : dict) (bs : list byte) : outcome msg :=
  match bs with
  | v :: l0 :: l1 :: l2 :: fl :: c0 :: c1 :: c2 :: a0 :: a1 :: a2 :: a3
      :: h0 :: h1 :: h2 :: h3 :: e0 :: e1 :: e2 :: e3 :: rest =>
      let total := un_be [l0; l1; l2] in
      let cmd := un_be [c0; c1; c2] in
      let app := un_be [a0; a1; a2; a3] in
      if known_cmd cmd && known_app app then
        match dec_members_legacy_d3 (S (S (length rest))) d total 20 rest with
        | Ok (avps, _) =>
            Ok (MkMsg (Byte.to_N v) total (Byte.to_N fl) cmd app
                      (un_be [h0; h1; h2; h3]) (un_be [e0; e1; e2; e3]) avps)
        | Err => Err | Panic => Panic | OutOfFuel => OutOfFuel
        end
      else Err
  | _ => Err
  end.

(* whatever the budgeted decoder accepts, the legacy decoder accepts with the same result:
   the budget only ever turns an acceptance into a rejection *)
Lemma d3_extends d : forall f,
  (forall lim r res, dec_avp f lim d r = Ok res -> dec_avp_legacy_d3 f d r = Ok res) /\
  (forall lim len off r res, dec_members f lim d len off r = Ok res -> dec_members_legacy_d3 f d len off r = Ok res).
Proof.
  induction f as [|f [IHa IHm]]; [split; intros; discriminate|]. split.
  - intros lim r res. cbn [dec_avp dec_avp_legacy_d3].
    destruct (dec_header r) as [[[[[[c m] p] len] vd] r2]|]; [|discriminate].
    destruct (len <? hdr vd); [discriminate|].
    destruct (d c vd) as [t|]; [|discriminate].
    destruct t; try discriminate; try (cbv zeta; cbn [is_leaf_ty]; intros H; exact H).
    cbv zeta. cbn [is_leaf_ty].
    destruct lim as [|lim']; [discriminate|].
    destruct (dec_members f lim' d (len - hdr vd) 0 r2) as [[l r3]| | |] eqn:E; try discriminate.
    rewrite (IHm _ _ _ _ _ E). intros H; exact H.
  - intros lim len off r res. cbn [dec_members dec_members_legacy_d3].
    destruct (off <? len).
    + destruct (dec_avp f lim d r) as [[a r1]| | |] eqn:Ea; try discriminate.
      rewrite (IHa _ _ _ Ea). cbv zeta.
      destruct (4294967296 <=? off + a_len a + a_pad a); [discriminate|].
      destruct (dec_members f lim d len (off + a_len a + a_pad a) r1) as [[l1 r2]| | |] eqn:Em; try discriminate.
      rewrite (IHm _ _ _ _ _ Em). intros H; exact H.
    + intros H; exact H.
Qed.

Lemma d3_msg_extends lim d bs m : dec_msg lim d bs = Ok m -> dec_msg_legacy_d3 d bs = Ok m.
Proof.
  unfold dec_msg, dec_msg_legacy_d3.
  destruct bs as [|v [|l0 [|l1 [|l2 [|fl [|c0 [|c1 [|c2 [|a0 [|a1 [|a2 [|a3 [|h0 [|h1 [|h2 [|h3 [|e0 [|e1 [|e2 [|e3 rest]]]]]]]]]]]]]]]]]]]];
    try discriminate.
  cbv zeta. destruct (known_cmd _ && known_app _); [|discriminate].
  destruct (dec_members (S (S (length rest))) lim d (un_be [l0; l1; l2]) 20 rest) as [[avps r]| | |] eqn:E; try discriminate.
  rewrite (proj2 (d3_extends d _) _ _ _ _ _ E). intros H; exact H.
Qed.

(* n + 1 Grouped AVPs inside one another, the innermost one empty: 8 (n + 1) octets *)
Fixpoint snest (n : nat) : savp :=
  match n with
  | O => SAvp 1 None false false (SGrp [])
  | S k => SAvp 1 None false false (SGrp [snest k])
  end.
Definition d3_dict : dict := fun _ _ => Some TGrouped.
Definition d3_smsg (n : nat) : smsg := MkSMsg 1 0 257 0 0 0 [snest n].
Definition d3_frame (n : nat) : list byte := spec_msg (d3_smsg n).

Lemma snest_len n : blen (spec_avp (snest n)) = 8 * (N.of_nat n + 1).
Proof.
  induction n as [|k IH].
  - reflexivity.
  - cbn [snest spec_avp spec_val flat_map]. rewrite app_nil_r. rewrite !blen_app, blen_be32, blen_be24, blen_zeros.
    rewrite IH. cbn [optbe32 hdr]. rewrite blen_cons, !blen_nil. unfold pad4. lia.
Qed.

Lemma snest_depth n : sdepth (snest n) = S n.
Proof.
  induction n as [|k IH]; [reflexivity|].
  cbn [snest]. rewrite sdepth_grp, sdepth_list_cons, IH. cbn [sdepth_list]. lia.
Qed.

Lemma snest_swf n : 8 * (N.of_nat n + 1) < 16777216 -> swf d3_dict (snest n).
Proof.
  induction n as [|k IH]; intros H.
  - cbn [snest swf swf_val vd_ok hdr spec_val flat_map sty_of]. change (blen []) with 0.
    repeat split; lia.
  - cbn [snest swf swf_val vd_ok hdr spec_val flat_map sty_of]. rewrite app_nil_r, snest_len.
    repeat split; try lia. apply IH. lia.
Qed.

Lemma d3_wire n : N.of_nat n <= 2000000 -> wire_msg d3_dict (d3_smsg n) (d3_frame n).
Proof.
  intros H. exists (flat_map spec_avp [snest n]). split; [|split; [|split]].
  - apply spec_list_is_wire. cbn [d3_smsg s_avps]. rewrite swf_list_cons. split; [|exact I].
    apply snest_swf. lia.
  - unfold hdr_ranges, d3_smsg. cbn [s_ver s_flags s_cmd s_app s_hbh s_e2e]. repeat split; lia.
  - cbn [flat_map]. rewrite app_nil_r, snest_len. lia.
  - reflexivity.
Qed.

Lemma complete_spec_hdr sm body : 20 + blen body < 16777216 ->
  complete (spec_hdr sm (20 + blen body) ++ body).
Proof.
  intros H. unfold spec_hdr. unfold be24 at 1. cbn [app]. unfold complete.
  change [b_of_N ((20 + blen body) / 256 / 256); b_of_N ((20 + blen body) / 256); b_of_N (20 + blen body)]
    with (be24 (20 + blen body)).
  rewrite un_be24 by exact H.
  rewrite !blen_cons, !blen_app, blen_be24, !blen_be32. lia.
Qed.

(* General unboundedness.  The frame holds n + 1 nested groups (8 octets each), so it exists
   as long as 20 + 8 (n + 1) fits the 24-bit message length; within that range - two million
   levels, far beyond any thread stack - the legacy decoder recurses to the full depth, the
   repaired one rejects the frame whenever the budget is smaller. *)
Lemma D3_witness : forall n, N.of_nat n <= 2000000 ->
  exists d bs m, dec_msg_legacy_d3 d bs = Ok m /\ (n < depth_list (m_avps m))%nat /\ complete bs
                 /\ forall lim, (lim <= n)%nat -> dec_msg lim d bs = Err.
Proof.
  intros n Hn. pose proof (d3_wire n Hn) as HW.
  destruct (dec_msg_complete (S n) d3_dict (d3_smsg n) (d3_frame n) HW eq_refl eq_refl) as (m & Em & Eabs & _ & _).
  { unfold smsg_depth, d3_smsg. cbn [s_avps]. rewrite sdepth_list_cons, snest_depth. cbn [sdepth_list]. lia. }
  assert (Hdep : depth_list (m_avps m) = S n).
  { rewrite <- sdepth_list_abs. change (map abs (m_avps m)) with (s_avps (abs_msg m)). rewrite Eabs.
    unfold d3_smsg. cbn [s_avps]. rewrite sdepth_list_cons, snest_depth. cbn [sdepth_list]. lia. }
  pose proof (d3_msg_extends _ _ _ _ Em) as El.
  exists d3_dict, (d3_frame n), m. split; [exact El|]. split; [lia|]. split.
  - unfold d3_frame, spec_msg. cbv zeta. apply complete_spec_hdr. unfold spec_body, d3_smsg. cbn [s_avps flat_map].
    rewrite app_nil_r, snest_len. lia.
  - intros lim Hl. pose proof (dec_msg_total lim d3_dict (d3_frame n)) as Ht.
    destruct (dec_msg lim d3_dict (d3_frame n)) as [m'| | |] eqn:E'; try contradiction; [|reflexivity].
    pose proof (dec_msg_depth _ _ _ _ E') as Hd'. apply d3_msg_extends in E'.
    rewrite El in E'. inversion E'; subst m'. lia.
Qed.

(* a fixed instance, by computation alone: 101 levels *)
Lemma D3_witness_100 :
  exists m, dec_msg_legacy_d3 d3_dict (d3_frame 100) = Ok m /\ (100 < depth_list (m_avps m))%nat
            /\ dec_msg 16 d3_dict (d3_frame 100) = Err.
Proof. eexists. split; [vm_compute; reflexivity|]. split; [vm_compute; lia | vm_compute; reflexivity]. Qed.

(* ====================================================================================== *)
(* D4: the Result of the value encoder is dropped                                          *)
(* ====================================================================================== *)
(* (a) Infallible writer (Vec<u8>).  The pair is (octets handed to the writer, Result is Ok).
   The value encoder of a leaf either emits its image or - Time out of range - returns Err
   before writing anything; Grouped::encode_to stops at the first member that reports Err.
   Whatever the value encoder reported is discarded: the padding follows and the AVP reports
   Ok.  The length check of the repair of D6 is kept (modelled as failing before the AVP
   writes anything). *)
Fixpoint enc_avp_legacy_d4 (a : avp) : list byte * bool :=
  match a with
  | MkAvp c vd m p len pad v =>
      if 16777216 <=? len then ([], false) else
      let '(vb, _) := enc_val_legacy_d4 v in            (* `let _ = ...` *)
      (be32 c ++ [b_of_N (flags_byte (is_some vd) m p)] ++ be24 len ++ optbe32 vd ++ vb ++ zeros pad, true)
  end
with enc_val_legacy_d4 (v : value) : list byte * bool :=
  match v with
  | VLeaf l => if leaf_enc_ok l then (enc_leaf l, true) else ([], false)
  | VGrp ms =>
      (fix go (l : list avp) : list byte * bool :=
         match l with
         | [] => ([], true)
         | x :: xs =>
             let '(b, ok) := enc_avp_legacy_d4 x in
             if ok then let '(b', ok') := go xs in (b ++ b', ok') else (b, false)
         end) ms
  end.
Definition enc_avps_legacy_d4 : list avp -> list byte * bool :=
  fix go (l : list avp) : list byte * bool :=
    match l with
    | [] => ([], true)
    | x :: xs =>
        let '(b, ok) := enc_avp_legacy_d4 x in
        if ok then let '(b', ok') := go xs in (b ++ b', ok') else (b, false)
    end.
(* DiameterMessage::encode_to into a Vec<u8> *)
Definition enc_msg_legacy_d4 (m : msg) : outcome (list byte) :=
  if 16777216 <=? m_len m then Err else
  let '(b, ok) := enc_avps_legacy_d4 (m_avps m) in
  if ok then Ok (enc_hdr m ++ b) else Err.

(* Event-Timestamp (55) = 2040-01-01T00:00:00Z, 2208988800 s after 1970 *)
Definition d4_avp : avp := mk_avp 55 None true false (VLeaf (LTime 2208988800)).
Definition d4_msg : msg := msg_add (msg_new 257 0 128 1 2) d4_avp.

(* the legacy encoder says Ok and hands over 28 octets whose length field says 32: the four
   value octets are missing; the repaired encoder answers Err *)
Lemma D4_witness :
  exists m bs, m = msg_add (msg_new 257 0 128 1 2) (mk_avp 55 None true false (VLeaf (LTime 2208988800)))
               /\ enc_msg_legacy_d4 m = Ok bs
               /\ msg_len_field bs = 32 /\ m_len m = 32 /\ blen bs = 28 /\ ~ complete bs
               /\ enc_msg m = Err.
Proof.
  exists d4_msg. eexists. split; [reflexivity|]. split; [vm_compute; reflexivity|].
  split; [vm_compute; reflexivity|]. split; [vm_compute; reflexivity|].
  split; [vm_compute; reflexivity|]. split; [vm_compute; discriminate | vm_compute; reflexivity].
Qed.

(* where nothing goes wrong in a value encoder the legacy encoder is the repaired one *)
Lemma d4_agrees :
  forall a, enc_ok a = true -> enc_avp_legacy_d4 a = (enc_avp a, true).
Proof.
  intros a. pattern a.
  apply avp_ind' with (Q := fun v => val_enc_ok v = true -> enc_val_legacy_d4 v = (enc_val v, true)); clear a.
  - intros l H. cbn [val_enc_ok] in H. cbn [enc_val_legacy_d4 enc_val]. rewrite H. reflexivity.
  - intros ms IH H. cbn [val_enc_ok] in H. cbn [enc_val_legacy_d4 enc_val].
    induction IH as [|x xs Hx Hxs IHxs]; [reflexivity|].
    cbn [forallb] in H. apply andb_true_iff in H. destruct H as [H1 H2].
    rewrite (Hx H1). rewrite (IHxs H2). reflexivity.
  - intros c vd m p len pad v IHv H. cbn [enc_ok] in H. apply andb_true_iff in H. destruct H as [H1 H2].
    cbn [enc_avp_legacy_d4 enc_avp]. destruct (N.leb_spec 16777216 len); [lia|].
    rewrite (IHv H2). reflexivity.
Qed.

(* (b) Fallible writer (Model/IoWrite.v).  Result: success flag, octets the writer accepted,
   writer afterwards.  A failure inside the value - also inside a member of a Grouped value,
   header and padding of that member included - is swallowed by the enclosing AVP. *)
Definition hdr_chunks (c : N) (vd : option N) (m p : bool) (len : N) : list (list byte) :=
  [be32 c; [b_of_N (flags_byte (is_some vd) m p)]; be24 len]
    ++ (match vd with Some x => [be32 x] | None => [] end).

Fixpoint enc_to_avp_legacy_d4 (a : avp) (w : writer) : option (bool * list byte * writer) :=
  match a with
  | MkAvp c vd m p len pad v =>
      if 16777216 <=? len then Some (false, [], w) else
      match write_chunks w (hdr_chunks c vd m p len) with        (* self.header.encode_to(writer)? *)
      | Some (true, acc1, w1) =>
          match enc_to_val_legacy_d4 v w1 with                    (* let _ = ... *)
          | Some (_, acc2, w2) =>
              match write_chunks w2 (repeat [x00] (N.to_nat pad)) with   (* writer.write_all(&[0])? *)
              | Some (ok, acc3, w3) => Some (ok, acc1 ++ acc2 ++ acc3, w3)
              | None => None
              end
          | None => None
          end
      | Some (false, acc1, w1) => Some (false, acc1, w1)
      | None => None
      end
  end
with enc_to_val_legacy_d4 (v : value) (w : writer) : option (bool * list byte * writer) :=
  match v with
  | VLeaf l => if leaf_enc_ok l then write_chunks w (leaf_chunks l) else Some (false, [], w)
  | VGrp ms =>
      (fix go (l : list avp) (w : writer) : option (bool * list byte * writer) :=
         match l with
         | [] => Some (true, [], w)
         | x :: xs =>
             match enc_to_avp_legacy_d4 x w with                  (* avp.encode_to(writer)? *)
             | Some (true, acc, w') =>
                 match go xs w' with
                 | Some (ok, acc', w'') => Some (ok, acc ++ acc', w'')
                 | None => None
                 end
             | other => other
             end
         end) ms w
  end.
Definition enc_to_avps_legacy_d4 : list avp -> writer -> option (bool * list byte * writer) :=
  fix go (l : list avp) (w : writer) : option (bool * list byte * writer) :=
    match l with
    | [] => Some (true, [], w)
    | x :: xs =>
        match enc_to_avp_legacy_d4 x w with
        | Some (true, acc, w') =>
            match go xs w' with
            | Some (ok, acc', w'') => Some (ok, acc ++ acc', w'')
            | None => None
            end
        | other => other
        end
    end.
(* DiameterMessage::encode_to(writer): success flag and the octets the writer accepted *)
Definition enc_to_legacy_d4 (m : msg) (w : writer) : option (bool * list byte) :=
  if 16777216 <=? m_len m then Some (false, []) else
  match write_chunks w [[b_of_N (m_ver m)]; be24 (m_len m); [b_of_N (m_flags m)]; be24 (m_cmd m);
                        be32 (m_app m); be32 (m_hbh m); be32 (m_e2e m)] with
  | Some (true, acc, w') =>
      match enc_to_avps_legacy_d4 (m_avps m) w' with
      | Some (ok, acc', _) => Some (ok, acc ++ acc')
      | None => None
      end
  | Some (false, acc, _) => Some (false, acc)
  | None => None
  end.

(* CC-Request-Number (415) = 1000: a 32-octet frame whose last four octets are the value
   (no padding after it); the writer fails after 30 octets, i.e. inside the value *)
Definition d4w_msg : msg := msg_add (msg_new 272 4 128 1 2) (mk_avp 415 None true false (VLeaf (LU32 1000))).
Definition d4w_writer : writer := MkW 30 [].

(* what C05_success_means_complete / C05_fault_at_any_offset state fails: success is
   reported although the writer accepted 30 of the 32 octets; the repaired encoder reports
   the failure (with the same 30 octets accepted) *)
Lemma D4_writer_witness :
  exists m w acc,
    m = msg_add (msg_new 272 4 128 1 2) (mk_avp 415 None true false (VLeaf (LU32 1000)))
    /\ w = MkW 30 [] /\ caps_pos w
    /\ enc_to_legacy_d4 m w = Some (true, acc)
    /\ blen (enc_msg_raw m) = 32 /\ blen acc = 30 /\ acc = firstn 30 (enc_msg_raw m)
    /\ enc_to m w = Some (false, Some acc).
Proof.
  exists d4w_msg, d4w_writer. eexists. split; [reflexivity|]. split; [reflexivity|].
  split; [constructor|]. split; [vm_compute; reflexivity|].
  split; [vm_compute; reflexivity|]. split; [vm_compute; reflexivity|].
  split; vm_compute; reflexivity.
Qed.

(* ====================================================================================== *)
(* D5: Time::encode_to checks the upper bound only                                         *)
(* ====================================================================================== *)
Definition leaf_enc_ok_legacy_d5 (l : leaf) : bool :=
  match l with
  | LTime t => (t + rfc868_offset <=? 4294967295)%Z    (* `if diameter_timestamp > u32::MAX { Err }` *)
  | _ => true
  end.
(* enc_leaf is unchanged: `diameter_timestamp as u32` is u32_of_z *)

(* 1899-12-31T23:59:59Z is accepted by the legacy check, emitted as ff ff ff ff and read
   back as 2036-02-07T06:28:15Z *)
Lemma D5_witness :
  exists t, t = (-2208988801)%Z
            /\ leaf_enc_ok_legacy_d5 (LTime t) = true /\ time_ok t = false /\ leaf_enc_ok (LTime t) = false
            /\ dec_leaf TTime 4 (enc_leaf (LTime t)) = Some (LTime 2085978495, [])
            /\ dec_leaf TTime 4 (enc_leaf (LTime t)) <> Some (LTime t, []).
Proof.
  eexists. split; [reflexivity|]. split; [vm_compute; reflexivity|]. split; [vm_compute; reflexivity|].
  split; [vm_compute; reflexivity|]. split; [vm_compute; reflexivity|]. vm_compute. discriminate.
Qed.

(* every time before 1900 passes the legacy check and fails the repaired one *)
Lemma D5_general t : (t < -2208988800)%Z ->
  leaf_enc_ok_legacy_d5 (LTime t) = true /\ leaf_enc_ok (LTime t) = false.
Proof.
  intros H. unfold leaf_enc_ok_legacy_d5, leaf_enc_ok, time_ok, rfc868_offset. split; lia.
Qed.

(* ====================================================================================== *)
(* D6: length fields of 2^24 or more are truncated                                         *)
(* ====================================================================================== *)
(* the check of the repair is gone: only the value encoders can fail *)
Fixpoint enc_ok_legacy_d6 (a : avp) : bool :=
  match a with
  | MkAvp _ _ _ _ _ _ v =>
      match v with
      | VLeaf l => leaf_enc_ok l
      | VGrp ms => forallb enc_ok_legacy_d6 ms
      end
  end.
(* `&self.length.to_be_bytes()[1..4]`: the low 24 bits *)
Fixpoint enc_avp_raw_legacy_d6 (a : avp) : list byte :=
  match a with
  | MkAvp c vd m p len pad v =>
      be32 c ++ [b_of_N (flags_byte (is_some vd) m p)] ++ be24 (len mod 16777216) ++ optbe32 vd
        ++ (match v with
            | VLeaf l => enc_leaf l
            | VGrp ms => flat_map enc_avp_raw_legacy_d6 ms
            end) ++ zeros pad
  end.
Definition enc_avp_legacy_d6 (a : avp) : outcome (list byte) :=
  if enc_ok_legacy_d6 a then Ok (enc_avp_raw_legacy_d6 a) else Err.
Definition enc_msg_legacy_d6 (m : msg) : outcome (list byte) :=
  if forallb enc_ok_legacy_d6 (m_avps m) then
    Ok ([b_of_N (m_ver m)] ++ be24 (m_len m mod 16777216) ++ [b_of_N (m_flags m)] ++ be24 (m_cmd m)
          ++ be32 (m_app m) ++ be32 (m_hbh m) ++ be32 (m_e2e m)
          ++ flat_map enc_avp_raw_legacy_d6 (m_avps m))
  else Err.

(* arithmetic: three octets cannot carry 2^24 or more *)
Lemma D6_general len : 16777216 <= len -> un_be (be24 len) <> len.
Proof.
  intros H. unfold be24.
  pose proof (un_be3_lt (b_of_N (len / 256 / 256)) (b_of_N (len / 256)) (b_of_N len)). lia.
Qed.
Lemma D6_arith_witness : exists len, 16777216 <= len /\ un_be (be24 len) <> len.
Proof. exists 16777224. split; [lia|]. apply D6_general. lia. Qed.

(* an AVP record whose stored length is 2^24 + 8 (the value itself kept small; only the
   stored field matters to the header encoder), and a message whose stored length is 2^24 + 20 *)
Definition d6_avp : avp := MkAvp 1 None false false 16777224 0 (VLeaf (LU32 7)).
Definition d6_msg : msg := MkMsg 1 16777236 128 257 0 1 2 [].

(* the legacy encoder reports success and the length field says 8 (resp. 20); the repaired
   encoder refuses *)
Lemma D6_witness :
  (exists len, 16777216 <= len /\ un_be (be24 len) <> len)
  /\ (exists a bs, a_len a = 16777216 + 8 /\ enc_avp_legacy_d6 a = Ok bs
                   /\ avp_len_field bs = 8 /\ avp_len_field bs <> a_len a /\ enc_ok a = false)
  /\ (exists m bs, m_len m = 16777216 + 20 /\ enc_msg_legacy_d6 m = Ok bs
                   /\ msg_len_field bs = 20 /\ msg_len_field bs <> m_len m /\ enc_msg m = Err).
Proof.
  split; [exact D6_arith_witness|]. split.
  - exists d6_avp. eexists. split; [reflexivity|]. split; [vm_compute; reflexivity|].
    split; [vm_compute; reflexivity|]. split; [vm_compute; discriminate | vm_compute; reflexivity].
  - exists d6_msg. eexists. split; [reflexivity|]. split; [vm_compute; reflexivity|].
    split; [vm_compute; reflexivity|]. split; [vm_compute; discriminate | vm_compute; reflexivity].
Qed.
