(* Model of src/transport/server.rs: DiameterServer::process_incoming_message, the
   per-connection loop, over a scripted stream (read script + write script).  Definitions only. *)
Require Import DV.Base.Bytes DV.Spec.Wire DV.Model.Avp DV.Model.Message DV.Model.Stream.
Local Open Scope N_scope.

(* Ok(()) / Err(_) / unwind *)
Inductive sres := SClosed | SFailed | SPanicked.

Record sout := MkSOut {
  so_calls : list msg;        (* the requests the handler was called with, oldest first *)
  so_written : list byte;     (* every octet the writer accepted *)
  so_res : sres;
  so_rs : list rev;           (* what is left of the two scripts *)
  so_ws : list wev }.

Section Serve.
  (* the user's handler: requests seen so far (oldest first), this request; None = Err *)
  Variable h : list msg -> msg -> option msg.

  Fixpoint serve_loop (fuel : nat) (lim : nat) (d : dict) (rs : list rev) (ws : list wev)
           (seen : list msg) (out : list byte) {struct fuel} : option sout :=
    match fuel with
    | O => None
    | S f =>
        match codec_decode lim d rs with
        | (DEof, rs1) => Some (MkSOut seen out SClosed rs1 ws)
        | (DErr, rs1) => Some (MkSOut seen out SFailed rs1 ws)
        | (DPanic, rs1) => Some (MkSOut seen out SPanicked rs1 ws)
        | (DOk req, rs1) =>
            match h seen req with
            | None => Some (MkSOut (seen ++ [req]) out SFailed rs1 ws)
            | Some ans =>
                match codec_encode ans ws with
                | (true, acc, ws1) => serve_loop f lim d rs1 ws1 (seen ++ [req]) (out ++ acc)
                | (false, acc, ws1) => Some (MkSOut (seen ++ [req]) (out ++ acc) SFailed rs1 ws1)
                end
            end
        end
    end.

  (* every iteration that continues has consumed at least 20 octets of the read script *)
  Definition serve (lim : nat) (d : dict) (rs : list rev) (ws : list wev) : option sout :=
    serve_loop (S (length (all_bytes rs))) lim d rs ws [] [].

  (* reference: the octets of the answers to the requests [ms], the handler having already
     seen [seen]; None as soon as one answer is missing or does not encode *)
  Fixpoint answer_octets (seen : list msg) (ms : list msg) : option (list (list byte)) :=
    match ms with
    | [] => Some []
    | m :: ms' =>
        match h seen m with
        | Some a =>
            match enc_msg a with
            | Ok bs =>
                match answer_octets (seen ++ [m]) ms' with
                | Some l => Some (bs :: l)
                | None => None
                end
            | _ => None
            end
        | None => None
        end
    end.
End Serve.

(* number of leading frames of [fs] wholly contained in the first [p] octets of [concat fs] *)
Fixpoint whole_frames (p : nat) (fs : list (list byte)) : nat :=
  match fs with
  | [] => O
  | f :: fs' => if (length f <=? p)%nat then S (whole_frames (p - length f) fs') else O
  end.
