(* One DiameterClient object over its whole life: a sequence of connections.  connect() (after repair
   D12) gives every connection its own waiter table and its own closed flag, so the object is a
   product of independent single-connection machines (Model/Client.v); send_message talks to the
   newest connection.  Definitions only.

   `mstep_legacy` describes the code before D12: ONE table shared by all connections of the object -
   the reader of an earlier connection, when it stops, drops the waiters of the current one. *)
Require Import DV.Base.Bytes DV.Model.Client.

Record mst := {
  cur  : nat;          (* number of successful connect() calls so far; 0 = not connected *)
  conn : nat -> st     (* connection k (1-based); conn 0 is never used *)
}.

Inductive mev :=
| MConnect               (* connect() succeeded (or the hook attached a stream): a new connection becomes current *)
| MConnectFail           (* connect() failed before a stream existed: nothing changes *)
| MSend (e : ev)         (* Register / WireOut / Abandon: the caller's side, on the current connection *)
| MPeer (c : nat) (e : ev) (* Peer / PeerBad / ReaderStep of connection c *)
.

Definition mstep (s : mst) (e : mev) : mst :=
  match e with
  | MConnect => {| cur := S (cur s); conn := conn s |}
  | MConnectFail => s
  | MSend e =>
      if Nat.eqb (cur s) 0 then s      (* "Not connected": send_message returns Err, nothing is registered *)
      else {| cur := cur s; conn := upd (conn s) (cur s) (step (conn s (cur s)) e) |}
  | MPeer c e => {| cur := cur s; conn := upd (conn s) c (step (conn s c) e) |}
  end.

Definition minit : mst := {| cur := 0; conn := fun _ => init |}.
Definition mrun (es : list mev) : mst := fold_left mstep es minit.

(* the events of connection c, given that k connections exist at the start of es *)
Fixpoint cproj (k c : nat) (es : list mev) : list ev :=
  match es with
  | [] => []
  | MConnect :: r => cproj (S k) c r
  | MConnectFail :: r => cproj k c r
  | MSend e :: r => if negb (Nat.eqb k 0) && Nat.eqb k c then e :: cproj k c r else cproj k c r
  | MPeer c' e :: r => if Nat.eqb c' c then e :: cproj k c r else cproj k c r
  end.

(* ---------- before D12: one waiter table for all connections of the object ----------
   The shared part (table, waiters) lives in one `st`; each connection has its own input queue and its
   own reader-stopped flag.  A reader that stops clears the SHARED table.  The closed flag consulted by
   send_message is the current connection's. *)
Record shst := {
  sh_cur   : nat;
  sh_shared: st;                 (* table / nw / ws / whop / ghost fields; its inq and closed are unused *)
  sh_inq   : nat -> list item;
  sh_closed: nat -> bool
}.

Definition with_conn (s : shst) (c : nat) : st :=
  {| table := table (sh_shared s); closed := sh_closed s c; nw := nw (sh_shared s); ws := ws (sh_shared s);
     whop := whop (sh_shared s); inq := sh_inq s c; nsent := nsent (sh_shared s); senth := senth (sh_shared s);
     wired := wired (sh_shared s); gone := gone (sh_shared s) |}.

Definition shput (s : shst) (c : nat) (x : st) : shst :=
  {| sh_cur := sh_cur s;
     sh_shared := {| table := table x; closed := false; nw := nw x; ws := ws x; whop := whop x; inq := [];
                   nsent := nsent x; senth := senth x; wired := wired x; gone := gone x |};
     sh_inq := upd (sh_inq s) c (inq x);
     sh_closed := upd (sh_closed s) c (closed x) |}.

Definition mstep_legacy (s : shst) (e : mev) : shst :=
  match e with
  | MConnect => {| sh_cur := S (sh_cur s); sh_shared := sh_shared s; sh_inq := sh_inq s; sh_closed := sh_closed s |}
  | MConnectFail => s
  | MSend e => if Nat.eqb (sh_cur s) 0 then s else shput s (sh_cur s) (step (with_conn s (sh_cur s)) e)
  | MPeer c e => shput s c (step (with_conn s c) e)
  end.

Definition shinit : shst := {| sh_cur := 0; sh_shared := init; sh_inq := fun _ => []; sh_closed := fun _ => false |}.
Definition shrun (es : list mev) : shst := fold_left mstep_legacy es shinit.
