(* Model of src/dictionary.rs: the AVP map keyed by (code, vendor) in the derived order of
   AvpKey (every Code(_) before every CodeAndVendor(_,_)), the two name maps, loading a
   document (as the structured definitions its XML denotes - serde-xml-rs is not modelled),
   the data-type name table and the 'must' flag parser.  Definitions only. *)
Require Import DV.Base.Bytes DV.Model.Leaf DV.Spec.Wire.
Local Open Scope N_scope.

Record adef := MkDef {
  d_code : N; d_vendor : option N; d_name : list byte; d_ty : ty; d_m : bool }.

Definition key := (N * option N)%type.
Definition key_of (x : adef) : key := (d_code x, d_vendor x).

Definition key_eqb (a b : key) : bool :=
  (fst a =? fst b) && opt_n_eqb (snd a) (snd b).

(* #[derive(PartialOrd, Ord)] enum AvpKey { Code(u32), CodeAndVendor(u32, u32) } *)
Definition key_ltb (a b : key) : bool :=
  match a, b with
  | (c1, None), (c2, None) => c1 <? c2
  | (_, None), (_, Some _) => true
  | (_, Some _), (_, None) => false
  | (c1, Some v1), (c2, Some v2) => (c1 <? c2) || ((c1 =? c2) && (v1 <? v2))
  end.

(* BTreeMap::insert *)
Fixpoint ins (df : adef) (l : list adef) : list adef :=
  match l with
  | [] => [df]
  | x :: xs =>
      if key_eqb (key_of df) (key_of x) then df :: xs
      else if key_ltb (key_of df) (key_of x) then df :: x :: xs
      else x :: ins df xs
  end.

(* BTreeMap::get *)
Definition lookup (l : list adef) (c : N) (vd : option N) : option adef :=
  find (fun x => key_eqb (c, vd) (key_of x)) l.
(* values().find(|avp| avp.name == name) *)
Definition by_name (l : list adef) (n : list byte) : option adef :=
  find (fun x => list_beq (d_name x) n) l.

(* HashMap<String, _>::insert / get *)
Definition nmap := list (list byte * N).
Definition nm_ins (k : list byte) (v : N) (m : nmap) : nmap := (k, v) :: m.
Definition nm_get (m : nmap) (k : list byte) : option N :=
  match find (fun kv => list_beq (fst kv) k) m with Some kv => Some (snd kv) | None => None end.

Record dstate := MkDict { ds_avps : list adef; ds_apps : nmap; ds_cmds : nmap }.
Definition dict_empty : dstate := MkDict [] [] [].

(* the function the AVP decoder consults: get_avp_type *)
Definition dict_fn (s : dstate) : dict :=
  fun c vd => match lookup (ds_avps s) c vd with Some x => Some (d_ty x) | None => None end.

(* ----- text tables of parse() ----- *)
Definition bytes_of_string (s : list byte) := s.
Definition ty_names : list (list byte * ty) :=
  [ (* "UTF8String" *)       ([x55;x54;x46;x38;x53;x74;x72;x69;x6e;x67], TUtf8);
    (* "OctetString" *)      ([x4f;x63;x74;x65;x74;x53;x74;x72;x69;x6e;x67], TOctets);
    (* "Integer32" *)        ([x49;x6e;x74;x65;x67;x65;x72;x33;x32], TI32);
    (* "Integer64" *)        ([x49;x6e;x74;x65;x67;x65;x72;x36;x34], TI64);
    (* "Unsigned32" *)       ([x55;x6e;x73;x69;x67;x6e;x65;x64;x33;x32], TU32);
    (* "Unsigned64" *)       ([x55;x6e;x73;x69;x67;x6e;x65;x64;x36;x34], TU64);
    (* "Enumerated" *)       ([x45;x6e;x75;x6d;x65;x72;x61;x74;x65;x64], TEnum);
    (* "Grouped" *)          ([x47;x72;x6f;x75;x70;x65;x64], TGrouped);
    (* "DiameterIdentity" *) ([x44;x69;x61;x6d;x65;x74;x65;x72;x49;x64;x65;x6e;x74;x69;x74;x79], TIdentity);
    (* "DiameterURI" *)      ([x44;x69;x61;x6d;x65;x74;x65;x72;x55;x52;x49], TUri);
    (* "Time" *)             ([x54;x69;x6d;x65], TTime);
    (* "Address" *)          ([x41;x64;x64;x72;x65;x73;x73], TAddress);
    (* "IPv4" *)             ([x49;x50;x76;x34], TIPv4);
    (* "IPv6" *)             ([x49;x50;x76;x36], TIPv6);
    (* "Float32" *)          ([x46;x6c;x6f;x61;x74;x33;x32], TF32);
    (* "Float64" *)          ([x46;x6c;x6f;x61;x74;x36;x34], TF64) ].

Definition ty_of_name (n : list byte) : ty :=
  match find (fun p => list_beq (fst p) n) ty_names with Some p => snd p | None => TUnknown end.

(* s.split(',') *)
Fixpoint split_comma_aux (cur : list byte) (s : list byte) : list (list byte) :=
  match s with
  | [] => [rev cur]
  | b :: s' => if Byte.eqb b x2c then rev cur :: split_comma_aux [] s' else split_comma_aux (b :: cur) s'
  end.
Definition split_comma (s : list byte) : list (list byte) := split_comma_aux [] s.

(* flags.contains(&"M") *)
Definition must_has_m (must : option (list byte)) : bool :=
  match must with
  | Some s => existsb (fun t => list_beq t [x4d]) (split_comma s)
  | None => false
  end.

(* one <avp> element as the XML gives it *)
Record xdef := MkX {
  x_code : N; x_vendor : option N; x_name : list byte; x_tyname : list byte; x_must : option (list byte) }.
Definition def_of_x (x : xdef) : adef :=
  MkDef (x_code x) (x_vendor x) (x_name x) (ty_of_name (x_tyname x)) (must_has_m (x_must x)).

(* one <application>: its name and id, its commands, its AVPs, in document order *)
Record xapp := MkXApp {
  xa_name : list byte; xa_id : N; xa_cmds : list (list byte * N); xa_avps : list xdef }.

Inductive dop :=
| DLoad (apps : list xapp)       (* Dictionary::new(&[..]) element / load_xml *)
| DAdd (df : adef).              (* add_avp *)

Definition add_avp (s : dstate) (df : adef) : dstate :=
  MkDict (ins df (ds_avps s)) (ds_apps s) (ds_cmds s).

Definition load_app (s : dstate) (a : xapp) : dstate :=
  let s1 := MkDict (ds_avps s) (nm_ins (xa_name a) (xa_id a) (ds_apps s)) (ds_cmds s) in
  let s2 := fold_left (fun st kv => MkDict (ds_avps st) (ds_apps st) (nm_ins (fst kv) (snd kv) (ds_cmds st)))
                      (xa_cmds a) s1 in
  fold_left (fun st x => add_avp st (def_of_x x)) (xa_avps a) s2.

Definition dstep (s : dstate) (o : dop) : dstate :=
  match o with
  | DLoad apps => fold_left load_app apps s
  | DAdd df => add_avp s df
  end.
Definition drun (ops : list dop) : dstate := fold_left dstep ops dict_empty.

(* ----- the history of an operation sequence, as data (used by the C14 statements) ----- *)
(* the definitions an operation hands to add_avp, in call order *)
Definition defs_of_app (a : xapp) : list adef := map def_of_x (xa_avps a).
Definition defs_of_op (o : dop) : list adef :=
  match o with
  | DLoad apps => flat_map defs_of_app apps
  | DAdd df => [df]
  end.
Definition defs_of (ops : list dop) : list adef := flat_map defs_of_op ops.

(* the LAST element of l whose key equals k *)
Fixpoint last_def (k : key) (l : list adef) : option adef :=
  match l with
  | [] => None
  | x :: xs =>
      match last_def k xs with
      | Some y => Some y
      | None => if key_eqb k (key_of x) then Some x else None
      end
  end.

(* the (name, id) pairs handed to applications.insert / commands.insert, in call order *)
Definition apps_of_op (o : dop) : list (list byte * N) :=
  match o with
  | DLoad apps => map (fun a => (xa_name a, xa_id a)) apps
  | DAdd _ => []
  end.
Definition apps_of (ops : list dop) : list (list byte * N) := flat_map apps_of_op ops.
Definition cmds_of_op (o : dop) : list (list byte * N) :=
  match o with
  | DLoad apps => flat_map xa_cmds apps
  | DAdd _ => []
  end.
Definition cmds_of (ops : list dop) : list (list byte * N) := flat_map cmds_of_op ops.

(* the id of the LAST pair of l whose name equals k *)
Fixpoint nm_last (k : list byte) (l : list (list byte * N)) : option N :=
  match l with
  | [] => None
  | p :: ps =>
      match nm_last k ps with
      | Some v => Some v
      | None => if list_beq (fst p) k then Some (snd p) else None
      end
  end.

(* pieces.join(",") *)
Fixpoint concat_with_comma (l : list (list byte)) : list byte :=
  match l with
  | [] => []
  | t :: ts => match ts with [] => t | _ :: _ => t ++ x2c :: concat_with_comma ts end
  end.
