(* Client and server together: the schedule in which a client sends requests with the hop-by-hop ids [hs] one after the
   other on one connection, and the peer - a server running the connection loop of Model/Server.v - answers them in
   that order, the client's reader consuming each answer as it arrives.  Definitions only. *)
Require Import DV.Base.Bytes DV.Model.Client.

Definition sends (hs : list N) : list ev := flat_map (fun h => [Register h; WireOut h]) hs.
Definition answers (hs : list N) : list ev := flat_map (fun h => [Peer h; ReaderStep]) hs.
Definition e2e_sched (hs : list N) : list ev := sends hs ++ answers hs.
