(* Model of src/diameter.rs: the message with its *running* stored length, the builder
   operations, encode_to, decode_from, and the accessors.  Definitions only. *)
Require Import DV.Base.Bytes DV.Model.Leaf DV.Spec.Wire DV.Model.Avp.
Local Open Scope N_scope.

Record msg := MkMsg {
  m_ver : N; m_len : N; m_flags : N; m_cmd : N; m_app : N; m_hbh : N; m_e2e : N;
  m_avps : list avp }.

(* enum CommandCode / ApplicationId: the numbers FromPrimitive accepts *)
Definition cmd_table : list N := [0; 257; 280; 282; 258; 275; 274; 272; 8388635; 8388636; 271; 265].
Definition app_table : list N := [0; 3; 4; 16777238; 16777236; 16777302].
Definition mem_n (x : N) (l : list N) : bool := existsb (N.eqb x) l.
Definition known_cmd (c : N) : bool := mem_n c cmd_table.
Definition known_app (a : N) : bool := mem_n a app_table.

(* DiameterMessage::new *)
Definition msg_new (cmd app flags hbh e2e : N) : msg := MkMsg 1 20 flags cmd app hbh e2e [].
(* DiameterMessage::add *)
Definition msg_add (m : msg) (a : avp) : msg :=
  MkMsg (m_ver m) (m_len m + a_len a + a_pad a) (m_flags m) (m_cmd m) (m_app m) (m_hbh m) (m_e2e m)
        (m_avps m ++ [a]).
(* DiameterMessage::add_avp *)
Definition msg_add_avp (m : msg) (c : N) (vd : option N) (fl : N) (v : value) : msg :=
  msg_add m (mk_avp_fl c vd fl v).

Definition enc_hdr (m : msg) : list byte :=
  [b_of_N (m_ver m)] ++ be24 (m_len m) ++ [b_of_N (m_flags m)] ++ be24 (m_cmd m)
    ++ be32 (m_app m) ++ be32 (m_hbh m) ++ be32 (m_e2e m).

Definition enc_msg_raw (m : msg) : list byte := enc_hdr m ++ flat_map enc_avp (m_avps m).
Definition msg_enc_ok (m : msg) : bool := (m_len m <? 16777216) && forallb enc_ok (m_avps m).
(* DiameterMessage::encode_to into an infallible writer *)
Definition enc_msg (m : msg) : outcome (list byte) :=
  if msg_enc_ok m then Ok (enc_msg_raw m) else Err.

(* DiameterMessage::decode_from over a Cursor holding [bs] *)
Definition dec_msg (lim : nat) (d : dict) (bs : list byte) : outcome msg :=
  match bs with
  | v :: l0 :: l1 :: l2 :: fl :: c0 :: c1 :: c2 :: a0 :: a1 :: a2 :: a3
      :: h0 :: h1 :: h2 :: h3 :: e0 :: e1 :: e2 :: e3 :: rest =>
      let total := un_be [l0; l1; l2] in
      let cmd := un_be [c0; c1; c2] in
      let app := un_be [a0; a1; a2; a3] in
      if known_cmd cmd && known_app app then
        match dec_members (S (S (length rest))) lim d total 20 rest with
        | Ok (avps, _) =>
            Ok (MkMsg (Byte.to_N v) total (Byte.to_N fl) cmd app
                      (un_be [h0; h1; h2; h3]) (un_be [e0; e1; e2; e3]) avps)
        | Err => Err | Panic => Panic | OutOfFuel => OutOfFuel
        end
      else Err
  | _ => Err
  end.

Definition abs_msg (m : msg) : smsg :=
  MkSMsg (m_ver m) (m_flags m) (m_cmd m) (m_app m) (m_hbh m) (m_e2e m) (map abs (m_avps m)).

(* "the octet string's length equals its declared message length" *)
Definition complete (bs : list byte) : Prop :=
  match bs with
  | _ :: l0 :: l1 :: l2 :: _ => blen bs = un_be [l0; l1; l2]
  | _ => False
  end.

(* ---------- accessors (C18) ---------- *)
Definition get_avps (m : msg) : list avp := m_avps m.
Definition get_avp (m : msg) (c : N) : option avp := find (fun a => a_code a =? c) (m_avps m).
(* the sixteen typed accessors, indexed by the data type they ask for *)
Definition get_typed (t : ty) (a : avp) : option value :=
  if ty_eqb (val_ty (a_val a)) t then Some (a_val a) else None.
Definition group_members (v : value) : option (list avp) :=
  match v with VGrp ms => Some ms | _ => None end.

Definition msg_wireb (m : msg) : bool :=
  (m_ver m <? 256) && (m_flags m <? 256) && (m_cmd m <? 16777216) && (m_app m <? 4294967296)
  && (m_hbh m <? 4294967296) && (m_e2e m <? 4294967296) && (m_len m <? 16777216)
  && forallb wireb (m_avps m).

(* invariants of a message *)
Definition msg_consistent (m : msg) : Prop :=
  consistent_list (m_avps m) /\ m_len m = 20 + members_len (m_avps m).
Definition msg_rep (m : msg) : Prop :=
  m_ver m < 256 /\ m_flags m < 256 /\ m_cmd m < 16777216 /\ m_app m < 4294967296
  /\ m_hbh m < 4294967296 /\ m_e2e m < 4294967296 /\ rep_list (m_avps m).
