(* Model of src/transport/client.rs: the request/answer matching of DiameterClient
   (send_message, handle, process_decoded_msg, ResponseFuture) as a state machine at await-point
   granularity.  Definitions only.

   `step` describes the code AFTER the planned repair D10: when the reader loop (`handle`) stops for
   any reason it takes the table lock, marks the table closed and drops every sender in it (so every
   outstanding ResponseFuture resolves to Err), and `send_message` on a closed table refuses (hands
   out an already-failed waiter).  `step_legacy` describes today's code, which does neither: the
   reader just returns and the senders stay parked in the HashMap. *)
Require Import DV.Base.Bytes.

(* an answer frame the peer put on the wire: its hop-by-hop id and a unique physical identity *)
Record frame := { hop : N; fid : nat }.
(* what the reader's Codec::decode sees next: a complete frame, or whatever makes it fail
   (EOF, reset, undecodable octets) *)
Inductive item := IFrame (f : frame) | IBad.
(* a ResponseFuture: still pending, resolved Ok(answer), resolved Err (its sender was dropped) *)
Inductive wst := WPending | WGot (f : frame) | WDropped.

Record st := {
  table  : list (N * nat);     (* msg_caches : hop -> index of the waiter whose Sender is stored *)
  closed : bool;               (* the reader has stopped (D10: and released the table) *)
  nw     : nat;                (* number of waiters handed out so far *)
  ws     : nat -> wst;         (* waiter states *)
  whop   : nat -> N;           (* hop id of the request each waiter belongs to *)
  inq    : list item;          (* emitted by the peer, not yet consumed by the reader *)
  nsent  : nat;                (* number of frames the peer has emitted (next fid) *)
  senth  : nat -> N;           (* ghost: hop id of the frame with that fid *)
  wired  : list N;             (* ghost: hop ids of requests of which at least one octet is on the wire *)
  gone   : nat -> bool         (* the Receiver half of waiter i no longer exists: the caller dropped the
                                  ResponseFuture (e.g. a timeout around it), or send_message itself failed
                                  in its write after registering and returned Err *)
}.

Definition upd {A} (f : nat -> A) (i : nat) (x : A) : nat -> A :=
  fun j => if Nat.eqb j i then x else f j.
(* HashMap::get / remove on the association list *)
Fixpoint lookup (t : list (N * nat)) (h : N) : option nat :=
  match t with [] => None | (k, i) :: t' => if N.eqb k h then Some i else lookup t' h end.
Fixpoint remove (t : list (N * nat)) (h : N) : list (N * nat) :=
  match t with [] => [] | (k, i) :: t' => if N.eqb k h then remove t' h else (k, i) :: remove t' h end.
(* dropping every Sender stored in the table *)
Fixpoint drop_all (t : list (N * nat)) (w : nat -> wst) : nat -> wst :=
  match t with [] => w | (_, i) :: t' => drop_all t' (upd w i WDropped) end.

Inductive ev :=
| Register (h : N)   (* send_message: lock, insert (replacing an entry drops the older sender, so that
                        waiter fails), unlock.  On a closed table the waiter handed out is already failed *)
| WireOut (h : N)    (* ghost: the first octet of request h reaches the peer *)
| Peer (h : N)       (* the peer emits a complete answer frame with hop id h *)
| PeerBad            (* the peer closes / resets / emits undecodable octets *)
| ReaderStep         (* the reader task consumes the head of inq *)
| Abandon (i : nat)  (* the Receiver of waiter i is dropped (future dropped by the caller, or never handed
                        out because the write in send_message failed); the Sender stays in the table *)
.

(* D10: close and drain *)
Definition stop (s : st) : st :=
  {| table := []; closed := true; nw := nw s; ws := drop_all (table s) (ws s); whop := whop s;
     inq := inq s; nsent := nsent s; senth := senth s; wired := wired s; gone := gone s |}.

Definition step (s : st) (e : ev) : st :=
  match e with
  | Register h =>
      if closed s then
        {| table := table s; closed := true; nw := S (nw s); ws := upd (ws s) (nw s) WDropped;
           whop := upd (whop s) (nw s) h; inq := inq s; nsent := nsent s; senth := senth s;
           wired := wired s; gone := gone s |}
      else
        let w' := match lookup (table s) h with Some i => upd (ws s) i WDropped | None => ws s end in
        {| table := (h, nw s) :: remove (table s) h; closed := false; nw := S (nw s);
           ws := upd w' (nw s) WPending; whop := upd (whop s) (nw s) h;
           inq := inq s; nsent := nsent s; senth := senth s; wired := wired s; gone := gone s |}
  | WireOut h =>
      {| table := table s; closed := closed s; nw := nw s; ws := ws s; whop := whop s;
         inq := inq s; nsent := nsent s; senth := senth s; wired := h :: wired s; gone := gone s |}
  | Peer h =>
      {| table := table s; closed := closed s; nw := nw s; ws := ws s; whop := whop s;
         inq := inq s ++ [IFrame {| hop := h; fid := nsent s |}]; nsent := S (nsent s);
         senth := upd (senth s) (nsent s) h; wired := wired s; gone := gone s |}
  | PeerBad =>
      {| table := table s; closed := closed s; nw := nw s; ws := ws s; whop := whop s;
         inq := inq s ++ [IBad]; nsent := nsent s; senth := senth s; wired := wired s; gone := gone s |}
  | Abandon i =>
      {| table := table s; closed := closed s; nw := nw s; ws := ws s; whop := whop s;
         inq := inq s; nsent := nsent s; senth := senth s; wired := wired s; gone := upd (gone s) i true |}
  | ReaderStep =>
      if closed s then s else
      match inq s with
      | [] => s
      | IBad :: q =>
          stop {| table := table s; closed := false; nw := nw s; ws := ws s; whop := whop s;
                  inq := q; nsent := nsent s; senth := senth s; wired := wired s; gone := gone s |}
      | IFrame f :: q =>
          match lookup (table s) (hop f) with
          | Some i =>
              if gone s i then
                (* process_decoded_msg: the entry is removed, sender.send(res) fails because the Receiver
                   is gone ("Failed to send response"), the error breaks the reader loop *)
                stop {| table := remove (table s) (hop f); closed := false; nw := nw s;
                        ws := upd (ws s) i WDropped; whop := whop s; inq := q;
                        nsent := nsent s; senth := senth s; wired := wired s; gone := gone s |}
              else
                {| table := remove (table s) (hop f); closed := false; nw := nw s;
                   ws := upd (ws s) i (WGot f); whop := whop s; inq := q;
                   nsent := nsent s; senth := senth s; wired := wired s; gone := gone s |}
          | None => (* "No request found for hop_by_hop_id": the reader stops *)
              stop {| table := table s; closed := false; nw := nw s; ws := ws s; whop := whop s;
                      inq := q; nsent := nsent s; senth := senth s; wired := wired s; gone := gone s |}
          end
      end
  end.

Definition init : st :=
  {| table := []; closed := false; nw := 0; ws := fun _ => WDropped; whop := fun _ => 0%N;
     inq := []; nsent := 0; senth := fun _ => 0%N; wired := []; gone := fun _ => false |}.
Definition run (es : list ev) : st := fold_left step es init.

(* observing a state *)
Definition waiter_obs (s : st) (i : nat) : wst := ws s i.
Definition outcomes (s : st) : list wst := map (ws s) (seq 0 (nw s)).

(* ---- today's code (before D10): the reader just returns; `closed` is only a ghost flag ---- *)
Definition stop_legacy (s : st) : st :=
  {| table := table s; closed := true; nw := nw s; ws := ws s; whop := whop s;
     inq := inq s; nsent := nsent s; senth := senth s; wired := wired s; gone := gone s |}.

Definition step_legacy (s : st) (e : ev) : st :=
  match e with
  | Register h =>
      let w' := match lookup (table s) h with Some i => upd (ws s) i WDropped | None => ws s end in
      {| table := (h, nw s) :: remove (table s) h; closed := closed s; nw := S (nw s);
         ws := upd w' (nw s) WPending; whop := upd (whop s) (nw s) h;
         inq := inq s; nsent := nsent s; senth := senth s; wired := wired s; gone := gone s |}
  | ReaderStep =>
      if closed s then s else
      match inq s with
      | [] => s
      | IBad :: q =>
          stop_legacy {| table := table s; closed := false; nw := nw s; ws := ws s; whop := whop s;
                         inq := q; nsent := nsent s; senth := senth s; wired := wired s; gone := gone s |}
      | IFrame f :: q =>
          match lookup (table s) (hop f) with
          | Some i =>
              if gone s i then
                stop_legacy {| table := remove (table s) (hop f); closed := false; nw := nw s;
                               ws := upd (ws s) i WDropped; whop := whop s; inq := q;
                               nsent := nsent s; senth := senth s; wired := wired s; gone := gone s |}
              else
                {| table := remove (table s) (hop f); closed := false; nw := nw s;
                   ws := upd (ws s) i (WGot f); whop := whop s; inq := q;
                   nsent := nsent s; senth := senth s; wired := wired s; gone := gone s |}
          | None =>
              stop_legacy {| table := table s; closed := false; nw := nw s; ws := ws s; whop := whop s;
                             inq := q; nsent := nsent s; senth := senth s; wired := wired s; gone := gone s |}
          end
      end
  | _ => step s e
  end.
Definition run_legacy (es : list ev) : st := fold_left step_legacy es init.

(* ---- executable schedule guards (the Prop versions, ok_ev / all_ok, are in Proofs/ClientFacts.v) ----
   Register h : h is fresh (no waiter handed out so far belongs to a request with that id)
   WireOut h  : program order of the correct code: the request was registered before it is written
   Peer h     : causal peer (h is on the wire) that answers each id at most once
   PeerBad    : never (the connection is not cut)
   ReaderStep : always
   Abandon i  : only a future that has already completed (consumed and dropped by the caller) *)
Definition ok_evb (wire_after_register : bool) (s : st) (e : ev) : bool :=
  match e with
  | Register h => forallb (fun i => negb (N.eqb (whop s i) h)) (seq 0 (nw s))
  | WireOut h => if wire_after_register then existsb (fun i => N.eqb (whop s i) h) (seq 0 (nw s)) else true
  | Peer h => existsb (N.eqb h) (wired s)
              && forallb (fun a => negb (N.eqb (senth s a) h)) (seq 0 (nsent s))
  | PeerBad => false
  | ReaderStep => true
  | Abandon i => Nat.ltb i (nw s) && match ws s i with WPending => false | _ => true end
  end.
Fixpoint all_okb (wire_after_register : bool) (es : list ev) (s : st) : bool :=
  match es with
  | [] => true
  | e :: es' => ok_evb wire_after_register s e && all_okb wire_after_register es' (step s e)
  end.
