(* The fifteen non-grouped AVP data formats (RFC 6733 sections 4.2, 4.3): value domain,
   wire image, reported length, decoder.  Mirrors src/avp/{address,ipv4,ipv6,identity,uri,
   enumerated,float32,float64,integer32,integer64,octetstring,time,unsigned32,unsigned64,
   utf8string}.rs.  Definitions only; facts are in Proofs/LeafFacts.v. *)
Require Import DV.Base.Bytes DV.Base.Utf8.
Local Open Scope N_scope.

(* AvpType of src/avp/mod.rs *)
Inductive ty :=
| TUnknown | TAddress | TIPv4 | TIPv6 | TIdentity | TUri | TEnum | TF32 | TF64
| TGrouped | TI32 | TI64 | TOctets | TTime | TU32 | TU64 | TUtf8.

Definition ty_eqb (a b : ty) : bool :=
  match a, b with
  | TUnknown, TUnknown | TAddress, TAddress | TIPv4, TIPv4 | TIPv6, TIPv6
  | TIdentity, TIdentity | TUri, TUri | TEnum, TEnum | TF32, TF32 | TF64, TF64
  | TGrouped, TGrouped | TI32, TI32 | TI64, TI64 | TOctets, TOctets | TTime, TTime
  | TU32, TU32 | TU64, TU64 | TUtf8, TUtf8 => true
  | _, _ => false
  end.

(* A non-grouped value.  Octet payloads are [list byte]; what the Rust types guarantee about
   them (4 / 16 octets, valid UTF-8, integer ranges) is the predicate [leaf_rep]. Floats are
   their IEEE-754 bit patterns.  Time is seconds relative to 1970-01-01T00:00:00Z. *)
Inductive leaf :=
| LAddr4 (s : list byte) | LAddr6 (s : list byte) | LAddrE164 (s : list byte)
| LIPv4 (s : list byte) | LIPv6 (s : list byte)
| LIdent (s : list byte) | LUri (s : list byte)
| LEnum (z : Z) | LF32 (bits : N) | LF64 (bits : N)
| LI32 (z : Z) | LI64 (z : Z)
| LOctets (s : list byte) | LTime (t : Z)
| LU32 (n : N) | LU64 (n : N) | LUtf8 (s : list byte).

Definition leaf_ty (l : leaf) : ty :=
  match l with
  | LAddr4 _ | LAddr6 _ | LAddrE164 _ => TAddress
  | LIPv4 _ => TIPv4 | LIPv6 _ => TIPv6
  | LIdent _ => TIdentity | LUri _ => TUri
  | LEnum _ => TEnum | LF32 _ => TF32 | LF64 _ => TF64
  | LI32 _ => TI32 | LI64 _ => TI64
  | LOctets _ => TOctets | LTime _ => TTime
  | LU32 _ => TU32 | LU64 _ => TU64 | LUtf8 _ => TUtf8
  end.

(* seconds between 1900-01-01 and 1970-01-01 (derived in Base/Calendar.v) *)
Definition rfc868_offset : Z := 2208988800.

Definition i32_ok (z : Z) : bool := ((-2147483648 <=? z) && (z <? 2147483648))%Z.
Definition i64_ok (z : Z) : bool := ((-9223372036854775808 <=? z) && (z <? 9223372036854775808))%Z.
Definition time_ok (t : Z) : bool := ((0 <=? t + rfc868_offset) && (t + rfc868_offset <? 4294967296))%Z.

(* what a Rust value of the corresponding type always satisfies *)
Definition leaf_rep (l : leaf) : bool :=
  match l with
  | LAddr4 s | LIPv4 s => blen s =? 4
  | LAddr6 s | LIPv6 s => blen s =? 16
  | LAddrE164 s | LIdent s | LUtf8 s => utf8_valid s
  | LUri _ | LOctets _ => true
  | LEnum z | LI32 z => i32_ok z
  | LI64 z => i64_ok z
  | LF32 n | LU32 n => n <? 4294967296
  | LF64 n | LU64 n => n <? 18446744073709551616
  | LTime _ => true
  end.

(* the values the wire can carry (quantifier of C01/C02) *)
Definition leaf_wire (l : leaf) : bool :=
  leaf_rep l &&
  match l with
  | LAddrE164 s => (1 <=? blen s) && (blen s <=? 15)
  | LTime t => time_ok t
  | _ => true
  end.

(* does the value encoder succeed (src/avp/time.rs after the repair of D5) *)
Definition leaf_enc_ok (l : leaf) : bool :=
  match l with LTime t => time_ok t | _ => true end.

(* octets the value encoder emits *)
Definition enc_leaf (l : leaf) : list byte :=
  match l with
  | LAddr4 s => [x00; x01] ++ s
  | LAddr6 s => [x00; x02] ++ s
  | LAddrE164 s => [x00; x08] ++ s
  | LIPv4 s | LIPv6 s | LIdent s | LUri s | LOctets s | LUtf8 s => s
  | LEnum z | LI32 z => be32 (u32_of_z z)
  | LI64 z => be64 (u64_of_z z)
  | LF32 n | LU32 n => be32 n
  | LF64 n | LU64 n => be64 n
  | LTime t => be32 (u32_of_z (t + rfc868_offset))
  end.

(* what [length()] reports (src/avp/address.rs after the repair of D1) *)
Definition leaf_len (l : leaf) : N :=
  match l with
  | LAddr4 _ => 6 | LAddr6 _ => 18 | LAddrE164 s => 2 + blen s
  | LIPv4 _ => 4 | LIPv6 _ => 16
  | LIdent s | LUri s | LOctets s | LUtf8 s => blen s
  | LEnum _ | LI32 _ | LF32 _ | LU32 _ | LTime _ => 4
  | LI64 _ | LF64 _ | LU64 _ => 8
  end.

(* size of the fixed-size formats; these decoders are not told the declared length *)
Definition fixed_size (t : ty) : option N :=
  match t with
  | TIPv4 | TEnum | TF32 | TI32 | TTime | TU32 => Some 4
  | TF64 | TI64 | TU64 => Some 8
  | TIPv6 => Some 16
  | _ => None
  end.

Definition is_leaf_ty (t : ty) : bool :=
  match t with TUnknown | TGrouped => false | _ => true end.

Definition read4 (r : list byte) : option (list byte * list byte) :=
  match r with a :: b :: c :: e :: r' => Some ([a; b; c; e], r') | _ => None end.
Definition read8 (r : list byte) : option (list byte * list byte) :=
  match r with a :: b :: c :: e :: f :: g :: h :: i :: r' => Some ([a; b; c; e; f; g; h; i], r') | _ => None end.

(* the value decoders; [vl] is the declared value length (header length minus header size);
   the result is the value and the cursor after it *)
Definition dec_leaf (t : ty) (vl : N) (r : list byte) : option (leaf * list byte) :=
  match t with
  | TAddress =>
      match r with
      | f0 :: f1 :: r1 =>
          let fam := un_be [f0; f1] in
          if fam =? 1 then
            if vl =? 6 then
              match take 4 r1 with Some (s, r2) => Some (LAddr4 s, r2) | None => None end
            else None
          else if fam =? 2 then
            if vl =? 18 then
              match take 16 r1 with Some (s, r2) => Some (LAddr6 s, r2) | None => None end
            else None
          else if fam =? 8 then
            if 17 <? vl then None else if vl <? 3 then None else
              match take (vl - 2) r1 with
              | Some (s, r2) => if utf8_valid s then Some (LAddrE164 s, r2) else None
              | None => None
              end
          else None
      | _ => None
      end
  | TIPv4 => match take 4 r with Some (s, r') => Some (LIPv4 s, r') | None => None end
  | TIPv6 => match take 16 r with Some (s, r') => Some (LIPv6 s, r') | None => None end
  | TIdentity =>
      match take vl r with
      | Some (s, r') => if utf8_valid s then Some (LIdent s, r') else None
      | None => None end
  | TUtf8 =>
      match take vl r with
      | Some (s, r') => if utf8_valid s then Some (LUtf8 s, r') else None
      | None => None end
  | TUri => match take vl r with Some (s, r') => Some (LUri s, r') | None => None end
  | TOctets => match take vl r with Some (s, r') => Some (LOctets s, r') | None => None end
  | TEnum => match read4 r with Some (s, r') => Some (LEnum (z_of_u32 (un_be s)), r') | None => None end
  | TI32 => match read4 r with Some (s, r') => Some (LI32 (z_of_u32 (un_be s)), r') | None => None end
  | TU32 => match read4 r with Some (s, r') => Some (LU32 (un_be s), r') | None => None end
  | TF32 => match read4 r with Some (s, r') => Some (LF32 (un_be s), r') | None => None end
  | TTime => match read4 r with Some (s, r') => Some (LTime (Z.of_N (un_be s) - rfc868_offset), r') | None => None end
  | TI64 => match read8 r with Some (s, r') => Some (LI64 (z_of_u64 (un_be s)), r') | None => None end
  | TU64 => match read8 r with Some (s, r') => Some (LU64 (un_be s), r') | None => None end
  | TF64 => match read8 r with Some (s, r') => Some (LF64 (un_be s), r') | None => None end
  | TGrouped | TUnknown => None
  end.
