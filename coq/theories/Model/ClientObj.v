(* One DiameterClient object at the granularity of its three fields `writer`, `msg_caches` and `closed`.
   Model/ClientMulti.v treats "the current connection" as one thing; here the object keeps two pointers:
   the connection whose WRITE half it holds (`owr`) and the connection whose waiter table and closed flag it
   holds (`otb`).  send_message registers in the table `otb` points to and then writes through `owr`.
   connect() is three events: success (all fields move to the new connection), failure before a stream
   exists (TCP refused: nothing is touched) and failure after the stream exists (the TLS handshake fails).
   Definitions only.

   `ostep` is the code after repair D13: connect() builds the new table and flag in locals and stores them
   together with the writer, once the connection is fully set up.  `ostep_d13` is the code before it: the
   fresh table and flag were stored first, so a failed handshake left the client registering its requests
   in a table no reader ever looks at while still writing them to the previous connection. *)
Require Import DV.Base.Bytes DV.Model.Client DV.Model.ClientMulti.

Record ost := {
  owr   : nat;          (* connection whose writer the object holds; 0 = None ("Not connected") *)
  otb   : nat;          (* connection whose msg_caches / closed the object holds *)
  onc   : nat;          (* tables created so far *)
  oconn : nat -> st
}.

Inductive oev :=
| OConnectOk            (* connect() returned Ok (or the hook attached a stream) *)
| OConnectFailEarly     (* TcpStream::connect failed *)
| OConnectFailLate      (* the TCP connection was made, the TLS handshake failed *)
| ORegister (h : N)     (* send_message: lock the table, check the flag, insert, unlock *)
| OWire (h : N)         (* send_message: the first octet of request h leaves through the writer *)
| OAbandon (i : nat)    (* the Receiver of waiter i of the table the object holds is dropped *)
| OPeer (c : nat) (e : ev)   (* Peer / PeerBad / ReaderStep of connection c *)
.

Definition oput (s : ost) (c : nat) (x : st) : ost :=
  {| owr := owr s; otb := otb s; onc := onc s; oconn := upd (oconn s) c x |}.

Definition ostep_gen (late : ost -> ost) (s : ost) (e : oev) : ost :=
  match e with
  | OConnectOk => {| owr := S (onc s); otb := S (onc s); onc := S (onc s); oconn := oconn s |}
  | OConnectFailEarly => s
  | OConnectFailLate => late s
  | ORegister h => if Nat.eqb (owr s) 0 then s else oput s (otb s) (step (oconn s (otb s)) (Register h))
  | OWire h => if Nat.eqb (owr s) 0 then s else oput s (owr s) (step (oconn s (owr s)) (WireOut h))
  | OAbandon i => if Nat.eqb (owr s) 0 then s else oput s (otb s) (step (oconn s (otb s)) (Abandon i))
  | OPeer c e => oput s c (step (oconn s c) e)
  end.

Definition late_ok (s : ost) : ost := s.
Definition late_d13 (s : ost) : ost := {| owr := owr s; otb := S (onc s); onc := S (onc s); oconn := oconn s |}.
Definition ostep : ost -> oev -> ost := ostep_gen late_ok.
Definition ostep_d13 : ost -> oev -> ost := ostep_gen late_d13.

Definition oinit : ost := {| owr := 0; otb := 0; onc := 0; oconn := fun _ => init |}.
Definition orun (es : list oev) : ost := fold_left ostep es oinit.
Definition orun_d13 (es : list oev) : ost := fold_left ostep_d13 es oinit.

(* the same history as seen by the coarser product machine of Model/ClientMulti.v *)
Definition omap (e : oev) : mev :=
  match e with
  | OConnectOk => MConnect
  | OConnectFailEarly | OConnectFailLate => MConnectFail
  | ORegister h => MSend (Register h)
  | OWire h => MSend (WireOut h)
  | OAbandon i => MSend (Abandon i)
  | OPeer c e => MPeer c e
  end.

(* what the caller of the i-th send_message (0-based, over the object's whole life) ends up with: the
   table its waiter lives in is recorded when it registers *)
Fixpoint sends_of (late : ost -> ost) (es : list oev) (s : ost) : list (nat * nat) :=
  match es with
  | [] => []
  | e :: r =>
      match e with
      | ORegister _ => if Nat.eqb (owr s) 0 then sends_of late r (ostep_gen late s e)
                       else (otb s, nw (oconn s (otb s))) :: sends_of late r (ostep_gen late s e)
      | _ => sends_of late r (ostep_gen late s e)
      end
  end.
Definition send_outcomes (late : ost -> ost) (es : list oev) : list wst :=
  let s := fold_left (ostep_gen late) es oinit in
  map (fun ci => ws (oconn s (fst ci)) (snd ci)) (sends_of late es oinit).

(* the reconnect scenarios the harness plays over real sockets (RECONN tlsfail / overlap / failed), as histories *)
Definition sched_tlsfail : list oev :=
  [OConnectOk; ORegister 1%N; OWire 1%N; OPeer 1 (Peer 1%N); OPeer 1 ReaderStep;
   OConnectFailLate;
   ORegister 2%N; OWire 2%N; OPeer 1 (Peer 2%N); OPeer 1 ReaderStep;
   OPeer 1 PeerBad; OPeer 1 ReaderStep;
   ORegister 3%N].
Definition sched_overlap : list oev :=
  [OConnectOk; ORegister 1%N; OWire 1%N; OConnectOk; ORegister 2%N; OWire 2%N;
   OPeer 1 PeerBad; OPeer 1 ReaderStep; OPeer 2 (Peer 2%N); OPeer 2 ReaderStep].
Definition sched_failed : list oev :=
  [OConnectOk; ORegister 1%N; OWire 1%N; OPeer 1 (Peer 1%N); OPeer 1 ReaderStep; OConnectFailEarly;
   OPeer 1 PeerBad; OPeer 1 ReaderStep; ORegister 2%N].
