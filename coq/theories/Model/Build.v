(* Construction histories through the public API: Avp::new, Avp::from_name, Grouped::new /
   add / add_avp, DiameterMessage::new / add / add_avp / add_avp_by_name, decode-then-extend,
   AVPs and groups cloned out of a message and re-wrapped.  Definitions only. *)
Require Import DV.Base.Bytes DV.Model.Leaf DV.Spec.Wire DV.Model.Avp DV.Model.Message DV.Model.Dict.
Local Open Scope N_scope.

Inductive vexp :=
| XLeaf (l : leaf)
| XGrpNew (ms : list aexp)       (* Grouped::new(vec![..]) *)
| XGrpAdd (ms : list aexp)       (* Grouped::new(vec![]) followed by add / add_avp *)
with aexp :=
| XAvp (c : N) (vd : option N) (fl : N) (v : vexp)     (* Avp::new *)
| XNamed (name : list byte) (v : vexp).                 (* Avp::from_name *)

(* Avp::from_name *)
Definition from_name (ds : list adef) (name : list byte) (v : value) : option avp :=
  match by_name ds name with
  | Some df => Some (mk_avp (d_code df) (d_vendor df) (d_m df) false v)
  | None => None
  end.

Fixpoint eval_a (ds : list adef) (e : aexp) : option avp :=
  match e with
  | XAvp c vd fl v =>
      match eval_v ds v with Some v' => Some (mk_avp_fl c vd fl v') | None => None end
  | XNamed n v =>
      match eval_v ds v with Some v' => from_name ds n v' | None => None end
  end
with eval_v (ds : list adef) (v : vexp) : option value :=
  match v with
  | XLeaf l => Some (VLeaf l)
  | XGrpNew ms | XGrpAdd ms =>
      match (fix go (l : list aexp) : option (list avp) :=
               match l with
               | [] => Some []
               | x :: xs => match eval_a ds x, go xs with
                            | Some a, Some r => Some (a :: r) | _, _ => None end
               end) ms with
      | Some l => Some (VGrp l)
      | None => None
      end
  end.
Definition eval_list (ds : list adef) : list aexp -> option (list avp) :=
  fix go (l : list aexp) : option (list avp) :=
    match l with
    | [] => Some []
    | x :: xs => match eval_a ds x, go xs with Some a, Some r => Some (a :: r) | _, _ => None end
    end.

Inductive hop :=
| HAdd (a : aexp)                                          (* m.add(avp) *)
| HAddAvp (c : N) (vd : option N) (fl : N) (v : vexp)      (* m.add_avp(..) *)
| HAddName (name : list byte) (v : vexp)                   (* m.add_avp_by_name(..) *)
| HReAdd (i : nat)                                         (* m.add(m.get_avps()[i].clone()) *)
| HRewrap (i : nat) (c : N) (vd : option N) (fl : N) (extra : list aexp).
   (* clone the Grouped out of AVP i, add the extra members, wrap it in a new AVP, add it *)

Inductive hstart :=
| HNew (cmd app flags hbh e2e : N)
| HDecode (bs : list byte).

(* one step: the new message and whether the call succeeded; a failed call changes nothing *)
Definition hstep (ds : list adef) (m : msg) (o : hop) : msg * bool :=
  match o with
  | HAdd a => match eval_a ds a with Some x => (msg_add m x, true) | None => (m, false) end
  | HAddAvp c vd fl v =>
      match eval_v ds v with Some x => (msg_add_avp m c vd fl x, true) | None => (m, false) end
  | HAddName n v =>
      match eval_v ds v with
      | Some x => match from_name ds n x with Some a => (msg_add m a, true) | None => (m, false) end
      | None => (m, false)
      end
  | HReAdd i => match nth_error (m_avps m) i with Some a => (msg_add m a, true) | None => (m, false) end
  | HRewrap i c vd fl extra =>
      match nth_error (m_avps m) i with
      | Some a =>
          match a_val a, eval_list ds extra with
          | VGrp ms, Some xs => (msg_add m (mk_avp_fl c vd fl (VGrp (ms ++ xs))), true)
          | _, _ => (m, false)
          end
      | None => (m, false)
      end
  end.

Definition hstart_msg (lim : nat) (ds : list adef) (s : hstart) : outcome msg :=
  match s with
  | HNew cmd app fl hbh e2e => Ok (msg_new cmd app fl hbh e2e)
  | HDecode bs => dec_msg lim (fun c vd => match lookup ds c vd with Some x => Some (d_ty x) | None => None end) bs
  end.

Fixpoint hrun (ds : list adef) (m : msg) (ops : list hop) : msg * list bool :=
  match ops with
  | [] => (m, [])
  | o :: os => let '(m', ok) := hstep ds m o in
               let '(m'', oks) := hrun ds m' os in (m'', ok :: oks)
  end.
