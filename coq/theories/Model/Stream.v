(* Model of src/transport/mod.rs (struct Codec: decode / encode) at the granularity of tokio
   poll results.  The reader and the writer are *scripts*: one entry per availability event.
   [codec_decode] is the code AFTER the planned repair (an announced length below the 20-octet
   Diameter header is refused right after the 1 MiB check); [codec_decode_legacy] is the code as
   it is today.  Definitions only. *)
Require Import DV.Base.Bytes DV.Spec.Wire DV.Model.Avp DV.Model.Message.
Local Open Scope N_scope.

(* ---------- read side ---------- *)
(* what poll_read finds, one entry per availability event *)
Inductive rev := RChunk (bs : list byte) | RPending | REof | RErr.

Inductive rres := RGot (bs : list byte) | REofErr | RIoErr.

(* tokio::io::AsyncReadExt::read_exact on a scripted reader.  [n] = octets still wanted,
   [acc] = octets already placed in the buffer.  No space left => Ok without polling;
   Pending is transparent; a poll adding zero octets => UnexpectedEof; REof / RErr are sticky;
   a chunk stays at the head until it is empty, then it is dropped. *)
Fixpoint read_exact (s : list rev) (n : nat) (acc : list byte) {struct s} : rres * list rev :=
  match n with
  | O => (RGot acc, s)
  | S _ =>
      match s with
      | [] => (REofErr, [])
      | RChunk [] :: s' => (REofErr, s')
      | RChunk bs :: s' =>
          if (length bs <=? n)%nat
          then read_exact s' (n - length bs)%nat (acc ++ bs)
          else (RGot (acc ++ firstn n bs), RChunk (skipn n bs) :: s')
      | RPending :: s' => read_exact s' n acc
      | REof :: _ => (REofErr, s)
      | RErr :: _ => (RIoErr, s)
      end
  end.

(* DEof = Err(IoError(UnexpectedEof)); DErr = any other Err; DPanic = unwind *)
Inductive dres := DOk (m : msg) | DEof | DErr | DPanic.

Definition dres_of (o : outcome msg) : dres :=
  match o with Ok m => DOk m | Err => DErr | Panic => DPanic | OutOfFuel => DPanic end.

Definition dres_of_rres (r : rres) : dres :=
  match r with RGot _ => DErr | REofErr => DEof | RIoErr => DErr end.

(* Codec::decode, repaired *)
Definition codec_decode (lim : nat) (d : dict) (s : list rev) : dres * list rev :=
  match read_exact s 4 [] with
  | (RGot hd, s1) =>
      let L := un_be (skipn 1 hd) in                (* u32::from_be_bytes([0, b[1], b[2], b[3]]) *)
      if 1048576 <? L then (DErr, s1)               (* "Message too large to read" *)
      else if L <? 20 then (DErr, s1)               (* the repair: shorter than a header *)
      else
        match read_exact s1 (N.to_nat (L - 4)) [] with
        | (RGot body, s2) => (dres_of (dec_msg lim d (hd ++ body)), s2)
        | (REofErr, s2) => (DEof, s2)
        | (RIoErr, s2) => (DErr, s2)
        end
  | (REofErr, s1) => (DEof, s1)
  | (RIoErr, s1) => (DErr, s1)
  end.

(* Codec::decode as it is today: no lower bound.  L < 4: buffer.resize(L) truncates the
   vector below 4 and [&mut buffer[4..]] panics.  4 <= L < 20: L-4 octets are read and
   decode_from then fails on the short cursor ([dec_msg] of fewer than 20 octets is Err). *)
Definition codec_decode_legacy (lim : nat) (d : dict) (s : list rev) : dres * list rev :=
  match read_exact s 4 [] with
  | (RGot hd, s1) =>
      let L := un_be (skipn 1 hd) in
      if 1048576 <? L then (DErr, s1)
      else if L <? 4 then (DPanic, s1)
      else
        match read_exact s1 (N.to_nat (L - 4)) [] with
        | (RGot body, s2) => (dres_of (dec_msg lim d (hd ++ body)), s2)
        | (REofErr, s2) => (DEof, s2)
        | (RIoErr, s2) => (DErr, s2)
        end
  | (REofErr, s1) => (DEof, s1)
  | (RIoErr, s1) => (DErr, s1)
  end.

(* k successive Codec::decode calls on the same stream *)
Fixpoint decode_n (k : nat) (lim : nat) (d : dict) (s : list rev) : list dres * list rev :=
  match k with
  | O => ([], s)
  | S k' =>
      let '(r, s1) := codec_decode lim d s in
      let '(rs, s2) := decode_n k' lim d s1 in
      (r :: rs, s2)
  end.

(* octets deliverable before the first REof / RErr / RChunk [] / end of script *)
Fixpoint bytes_of (s : list rev) : list byte :=
  match s with
  | RChunk [] :: _ => []
  | RChunk bs :: s' => bs ++ bytes_of s'
  | RPending :: s' => bytes_of s'
  | _ => []
  end.

(* every octet of every chunk of the script (used as the fuel of the server loop) *)
Fixpoint all_bytes (s : list rev) : list byte :=
  match s with
  | RChunk bs :: s' => bs ++ all_bytes s'
  | _ :: s' => all_bytes s'
  | [] => []
  end.

(* what the reader meets once the octets of [bytes_of] are exhausted *)
Inductive tkind := TEof | TErr | TZero.
Fixpoint tail_kind (s : list rev) : tkind :=
  match s with
  | [] => TEof
  | RChunk [] :: _ => TZero
  | RChunk _ :: s' => tail_kind s'
  | RPending :: s' => tail_kind s'
  | REof :: _ => TEof
  | RErr :: _ => TErr
  end.

(* only non-empty chunks and Pending entries, then end of file (REof or end of script) *)
Definition fault_free (s : list rev) : bool :=
  match tail_kind s with TEof => true | _ => false end.
(* only non-empty chunks and Pending entries, then an io error *)
Definition err_cut (s : list rev) : bool :=
  match tail_kind s with TErr => true | _ => false end.

Definition consumed (s s' : list rev) : N := blen (bytes_of s) - blen (bytes_of s').

(* byte-level reference: Codec::decode on a reader that delivers [bs] and then fails with
   [short] (DEof for end of file, DErr for an io error) *)
Definition codec_decode_bk (short : dres) (lim : nat) (d : dict) (bs : list byte)
  : dres * list byte :=
  match bs with
  | b0 :: b1 :: b2 :: b3 :: r =>
      let L := un_be [b1; b2; b3] in
      if 1048576 <? L then (DErr, r)
      else if L <? 20 then (DErr, r)
      else if blen r <? L - 4 then (short, [])
      else (dres_of (dec_msg lim d ([b0; b1; b2; b3] ++ firstn (N.to_nat (L - 4)) r)),
            skipn (N.to_nat (L - 4)) r)
  | _ => (short, [])
  end.
Definition codec_decode_b := codec_decode_bk DEof.

(* ---------- write side ---------- *)
Inductive wev := WAccept (k : N) | WPending | WErr.

(* tokio::io::AsyncWriteExt::write_all on a scripted writer: success, octets the writer
   accepted, remaining script.  Empty buffer => Ok without polling; Ok(0) => WriteZero;
   WErr is sticky; the empty script accepts everything. *)
Fixpoint write_all (ws : list wev) (bs : list byte) {struct ws} : bool * list byte * list wev :=
  match bs with
  | [] => (true, [], ws)
  | _ :: _ =>
      match ws with
      | [] => (true, bs, [])
      | WAccept k :: ws' =>
          if k =? 0 then (false, [], ws')
          else if blen bs <=? k then (true, bs, ws')
          else
            let n := N.to_nat k in
            let '(ok, acc, ws2) := write_all ws' (skipn n bs) in
            (ok, firstn n bs ++ acc, ws2)
      | WPending :: ws' => write_all ws' bs
      | WErr :: _ => (false, [], ws)
      end
  end.

(* Codec::encode: encode_to a Vec, then write_all *)
Definition codec_encode (m : msg) (ws : list wev) : bool * list byte * list wev :=
  match enc_msg m with
  | Ok bs => write_all ws bs
  | _ => (false, [], ws)
  end.

(* a writer that never fails *)
Definition accepting (ws : list wev) : bool :=
  forallb (fun w => match w with WAccept k => negb (k =? 0) | WPending => true | WErr => false end) ws.

(* [Some q]: within ONE write_all the writer accepts q octets in total and then fails
   (WErr, or Ok(0)) *)
Fixpoint wbudget (ws : list wev) : option N :=
  match ws with
  | [] => None
  | WAccept k :: ws' =>
      if k =? 0 then Some 0
      else match wbudget ws' with Some q => Some (k + q) | None => None end
  | WPending :: ws' => wbudget ws'
  | WErr :: _ => Some 0
  end.

(* the same with one octet per accepting poll: no budget is lost at a boundary between two
   write_all calls, so the script accepts exactly q octets over the whole connection *)
Fixpoint wdribble (ws : list wev) : option nat :=
  match ws with
  | [] => None
  | WAccept k :: ws' =>
      if k =? 0 then Some O
      else if k =? 1 then match wdribble ws' with Some q => Some (S q) | None => None end
      else None
  | WPending :: ws' => wdribble ws'
  | WErr :: _ => Some O
  end.
