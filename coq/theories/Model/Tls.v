(* Model of the TLS decisions the library itself takes (C13): which name the client hands to
   the TLS library (src/transport/client.rs tls_domain, after the repair of D11), the
   accept-invalid-certs switch, whether TLS is used at all, and whether the server wraps
   accepted sockets.  The TLS library is an oracle: a certificate is accepted iff it chains to
   a trusted root AND one of its names equals the name it was asked to verify.
   Definitions only. *)
Require Import DV.Base.Bytes DV.Spec.Wire.
Local Open Scope N_scope.

Definition colon : byte := x3a.
Definition lbr : byte := x5b.
Definition rbr : byte := x5d.

(* str::rfind(':') : the part before the LAST colon, if there is one *)
Fixpoint before_last_colon (s : list byte) : option (list byte) :=
  match s with
  | [] => None
  | b :: r =>
      match before_last_colon r with
      | Some p => Some (b :: p)
      | None => if Byte.eqb b colon then Some [] else None
      end
  end.

(* str::find(']') : the part before the FIRST closing bracket *)
Fixpoint before_first_rbr (s : list byte) : option (list byte) :=
  match s with
  | [] => None
  | b :: r => if Byte.eqb b rbr then Some []
              else match before_first_rbr r with Some p => Some (b :: p) | None => None end
  end.

(* DiameterClient::tls_domain *)
Definition domain_of (addr : list byte) : list byte :=
  let plain := match before_last_colon addr with Some h => h | None => addr end in
  match addr with
  | b :: rest =>
      if Byte.eqb b lbr then
        match before_first_rbr rest with Some h => h | None => plain end
      else plain
  | [] => plain
  end.

(* before the repair: the whole "host:port" string *)
Definition domain_legacy (addr : list byte) : list byte := addr.

(* ---------- the configuration table ---------- *)
Inductive server_kind := SrvPlain | SrvTls.
Inductive cert_kind := CertMatch | CertWrongName | CertUntrusted.
Inductive addr_kind := AddrHost | AddrIp.
Record cell := MkCell { c_tls : bool; c_verify : bool; c_srv : server_kind; c_cert : cert_kind; c_addr : addr_kind }.

(* what happens to a request carrying a marker *)
Inductive tls_outcome :=
| OPlain       (* plain Diameter session: clear text on the wire, answered *)
| OTls         (* TLS session: no Diameter octet in clear, answered *)
| ORefused     (* the client refuses to proceed: nothing sent, nothing answered *)
| ONoService.  (* clear text sent to a TLS-only server: never processed, never answered *)

Definition host_name : list byte := [x6c;x6f;x63;x61;x6c;x68;x6f;x73;x74].           (* "localhost" *)
Definition ip_literal : list byte := [x31;x32;x37;x2e;x30;x2e;x30;x2e;x31].           (* "127.0.0.1" *)
Definition other_name : list byte := [x6f;x74;x68;x65;x72;x2e;x65;x78;x61;x6d;x70;x6c;x65].  (* "other.example" *)

Definition addr_host (a : addr_kind) : list byte := match a with AddrHost => host_name | AddrIp => ip_literal end.
Definition cert_names (c : cert_kind) : list (list byte) :=
  match c with CertMatch | CertUntrusted => [host_name; ip_literal] | CertWrongName => [other_name] end.
Definition cert_trusted (c : cert_kind) : bool := match c with CertUntrusted => false | _ => true end.

(* the TLS library's verification, as an oracle *)
Definition lib_verifies (c : cert_kind) (name : list byte) : bool :=
  cert_trusted c && existsb (fun n => list_beq n name) (cert_names c).

(* what the code does: [dom] is the function computing the name handed to the TLS library *)
Definition model_outcome (dom : list byte -> list byte) (port : list byte) (x : cell) : tls_outcome :=
  let address := addr_host (c_addr x) ++ colon :: port in
  if c_tls x then
    match c_srv x with
    | SrvPlain => ORefused                      (* no TLS session can be established *)
    | SrvTls =>
        let accept_invalid := negb (c_verify x) in        (* danger_accept_invalid_certs(!verify_cert) *)
        if accept_invalid || lib_verifies (c_cert x) (dom address) then OTls else ORefused
    end
  else
    match c_srv x with SrvPlain => OPlain | SrvTls => ONoService end.

(* what the property demands, stated without reference to the code *)
Definition spec_outcome (x : cell) : tls_outcome :=
  match c_tls x, c_srv x with
  | false, SrvPlain => OPlain
  | false, SrvTls => ONoService
  | true, SrvPlain => ORefused
  | true, SrvTls =>
      if c_verify x then
        match c_cert x with
        | CertMatch => OTls                     (* trusted and matches the host asked for *)
        | CertWrongName | CertUntrusted => ORefused
        end
      else OTls                                 (* verification disabled: any certificate *)
  end.

Definition all_cells : list cell :=
  flat_map (fun t => flat_map (fun v => flat_map (fun s => flat_map (fun c => map (fun a => MkCell t v s c a)
    [AddrHost; AddrIp]) [CertMatch; CertWrongName; CertUntrusted]) [SrvPlain; SrvTls]) [false; true]) [false; true].

Definition outcome_eqb (a b : tls_outcome) : bool :=
  match a, b with OPlain, OPlain | OTls, OTls | ORefused, ORefused | ONoService, ONoService => true | _, _ => false end.
