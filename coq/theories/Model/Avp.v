(* Model of src/avp/mod.rs and src/avp/group.rs: an AVP that *stores* its header length and
   padding (struct Avp / AvpHeader), the constructor Avp::new, the encoder that writes the
   stored fields, and the cursor-based decoder (mutual recursion Avp::decode_from <->
   Grouped::decode_from) with the nesting budget of the repaired code.
   Definitions only. *)
Require Import DV.Base.Bytes DV.Model.Leaf DV.Spec.Wire.
Local Open Scope N_scope.

Inductive outcome (A : Type) := Ok (a : A) | Err | Panic | OutOfFuel.
Arguments Ok {A}. Arguments Err {A}. Arguments Panic {A}. Arguments OutOfFuel {A}.

Inductive value :=
| VLeaf (l : leaf)
| VGrp (ms : list avp)
with avp := MkAvp (code : N) (vendor : option N) (mf pf : bool) (len pad : N) (v : value).

Definition a_code (a : avp) := match a with MkAvp c _ _ _ _ _ _ => c end.
Definition a_vendor (a : avp) := match a with MkAvp _ vd _ _ _ _ _ => vd end.
Definition a_mf (a : avp) := match a with MkAvp _ _ m _ _ _ _ => m end.
Definition a_pf (a : avp) := match a with MkAvp _ _ _ p _ _ _ => p end.
Definition a_len (a : avp) := match a with MkAvp _ _ _ _ l _ _ => l end.
Definition a_pad (a : avp) := match a with MkAvp _ _ _ _ _ p _ => p end.
Definition a_val (a : avp) := match a with MkAvp _ _ _ _ _ _ v => v end.

Definition val_ty (v : value) : ty := match v with VLeaf l => leaf_ty l | VGrp _ => TGrouped end.

(* Grouped::length(): sum of the members' stored length + padding *)
Definition members_len (l : list avp) : N := fold_right (fun a acc => a_len a + a_pad a + acc) 0 l.
(* AvpValue::length() *)
Definition val_len (v : value) : N :=
  match v with VLeaf l => leaf_len l | VGrp ms => members_len ms end.

(* Avp::new *)
Definition mk_avp (c : N) (vd : option N) (m p : bool) (v : value) : avp :=
  MkAvp c vd m p (hdr vd + val_len v) (pad4 (val_len v)) v.
(* Avp::new takes a flags octet and keeps its M and P bits *)
Definition mk_avp_fl (c : N) (vd : option N) (fl : N) (v : value) : avp :=
  mk_avp c vd (64 <=? fl mod 128) (32 <=? fl mod 64) v.

(* octets Avp::encode_to hands to the writer when nothing fails *)
Fixpoint enc_avp (a : avp) : list byte :=
  match a with
  | MkAvp c vd m p len pad v =>
      be32 c ++ [b_of_N (flags_byte (is_some vd) m p)] ++ be24 len ++ optbe32 vd
        ++ enc_val v ++ zeros pad
  end
with enc_val (v : value) : list byte :=
  match v with
  | VLeaf l => enc_leaf l
  | VGrp ms => flat_map enc_avp ms
  end.

(* does encode_to succeed: every stored length fits 24 bits (repair of D6), every value
   encoder succeeds and its result is propagated (repairs of D4, D5) *)
Fixpoint enc_ok (a : avp) : bool :=
  match a with
  | MkAvp _ _ _ _ len _ v => (len <? 16777216) && val_enc_ok v
  end
with val_enc_ok (v : value) : bool :=
  match v with
  | VLeaf l => leaf_enc_ok l
  | VGrp ms => forallb enc_ok ms
  end.

(* forget the stored lengths *)
Fixpoint abs (a : avp) : savp :=
  match a with MkAvp c vd m p _ _ v => SAvp c vd m p (abs_val v) end
with abs_val (v : value) : sval :=
  match v with
  | VLeaf l => SLeaf l
  | VGrp ms => SGrp (map abs ms)
  end.

(* ---------- decoder ---------- *)
(* [lim] is the remaining nesting budget: a Grouped AVP may be entered only when lim > 0.
   The cursor is the list of octets not yet read; Cursor::seek past the end saturates
   (a later read fails either way). *)
(* AvpHeader::decode_from: code, M, P, length, vendor id, cursor after the header *)
Definition dec_header (r : list byte) : option (N * bool * bool * N * option N * list byte) :=
  match r with
  | b0 :: b1 :: b2 :: b3 :: fl :: l0 :: l1 :: l2 :: r1 =>
      let code := un_be [b0; b1; b2; b3] in
      let len := un_be [l0; l1; l2] in
      let flv := Byte.to_N fl in
      let vflag := 128 <=? flv in
      let mflag := 64 <=? flv mod 128 in
      let pflag := 32 <=? flv mod 64 in
      if vflag then
        match r1 with
        | v0 :: v1 :: v2 :: v3 :: r2 => Some (code, mflag, pflag, len, Some (un_be [v0; v1; v2; v3]), r2)
        | _ => None
        end
      else Some (code, mflag, pflag, len, None, r1)
  | _ => None
  end.

Fixpoint dec_avp (f : nat) (lim : nat) (d : dict) (r : list byte) {struct f}
  : outcome (avp * list byte) :=
  match f with
  | O => OutOfFuel
  | S f' =>
    match dec_header r with
    | None => Err
    | Some (code, mflag, pflag, len, vd, r2) =>
      let hl := hdr vd in
      if len <? hl then Err else        (* checked_sub: repair of D2 *)
      let vl := len - hl in
      let fin (v : value) (r3 : list byte) :=
          Ok (MkAvp code vd mflag pflag len (pad4 vl) v, skipn (N.to_nat (pad4 vl)) r3) in
      match d code vd with
      | None => Err
      | Some t =>
          if is_leaf_ty t then
            match dec_leaf t vl r2 with
            | Some (l, r3) => fin (VLeaf l) r3
            | None => Err
            end
          else
            match t with
            | TGrouped =>
                match lim with
                | O => Err                     (* nesting limit: repair of D3 *)
                | S lim' =>
                  match dec_members f' lim' d vl 0 r2 with
                  | Ok (l, r3) => fin (VGrp l) r3
                  | Err => Err | Panic => Panic | OutOfFuel => OutOfFuel
                  end
                end
            | _ => Err                         (* AvpType::Unknown *)
            end
      end
    end
  end
with dec_members (f : nat) (lim : nat) (d : dict) (len off : N) (r : list byte) {struct f}
  : outcome (list avp * list byte) :=
  match f with
  | O => OutOfFuel
  | S f' =>
    if off <? len then
      match dec_avp f' lim d r with
      | Ok (a, r') =>
          let off' := off + a_len a + a_pad a in
          if 4294967296 <=? off' then Panic else     (* offset += ..: u32 arithmetic *)
          match dec_members f' lim d len off' r' with
          | Ok (l, r'') => Ok (a :: l, r'')
          | Err => Err | Panic => Panic | OutOfFuel => OutOfFuel
          end
      | Err => Err | Panic => Panic | OutOfFuel => OutOfFuel
      end
    else if off =? len then Ok ([], r) else Err
  end.

(* ---------- nesting depth ---------- *)
Fixpoint depth (a : avp) : nat :=
  match a with MkAvp _ _ _ _ _ _ v => depth_val v end
with depth_val (v : value) : nat :=
  match v with
  | VLeaf _ => O
  | VGrp ms => S ((fix go (l : list avp) : nat := match l with [] => O | x :: xs => Nat.max (depth x) (go xs) end) ms)
  end.
Definition depth_list : list avp -> nat :=
  fix go (l : list avp) : nat := match l with [] => O | x :: xs => Nat.max (depth x) (go xs) end.

(* ---------- invariants ---------- *)
(* stored lengths are the natural ones (what Avp::new establishes) *)
Fixpoint consistent (a : avp) : Prop :=
  match a with
  | MkAvp c vd m p len pad v =>
      len = hdr vd + val_len v /\ pad = pad4 (val_len v) /\ consistent_val v
  end
with consistent_val (v : value) : Prop :=
  match v with
  | VLeaf _ => True
  | VGrp ms => (fix all (l : list avp) : Prop := match l with [] => True | x :: xs => consistent x /\ all xs end) ms
  end.
Definition consistent_list : list avp -> Prop :=
  fix all (l : list avp) : Prop := match l with [] => True | x :: xs => consistent x /\ all xs end.

(* every field fits its Rust type; every value is representable *)
Fixpoint rep (a : avp) : Prop :=
  match a with
  | MkAvp c vd m p len pad v =>
      c < 4294967296 /\ vd_ok vd /\ rep_val v
  end
with rep_val (v : value) : Prop :=
  match v with
  | VLeaf l => leaf_rep l = true
  | VGrp ms => (fix all (l : list avp) : Prop := match l with [] => True | x :: xs => rep x /\ all xs end) ms
  end.
Definition rep_list : list avp -> Prop :=
  fix all (l : list avp) : Prop := match l with [] => True | x :: xs => rep x /\ all xs end.

(* the known class (KF-1): a fixed-size value whose declared length disagrees with its size.
   [nomm a] says no such node occurs in [a]. *)
Fixpoint nomm (a : avp) : Prop :=
  match a with
  | MkAvp c vd m p len pad v =>
      match v with
      | VLeaf l => match fixed_size (leaf_ty l) with Some k => len = hdr vd + k | None => True end
      | VGrp ms => (fix all (l : list avp) : Prop := match l with [] => True | x :: xs => nomm x /\ all xs end) ms
      end
  end.
Definition nomm_list : list avp -> Prop :=
  fix all (l : list avp) : Prop := match l with [] => True | x :: xs => nomm x /\ all xs end.

(* the quantifier of C01/C02 as a boolean: every value is one the wire can carry, every
   number fits its field, every stored length fits 24 bits *)
Fixpoint wireb (a : avp) : bool :=
  match a with
  | MkAvp c vd m p len pad v =>
      (c <? 4294967296) && (match vd with Some x => x <? 4294967296 | None => true end)
      && (len <? 16777216)
      && match v with
         | VLeaf l => leaf_wire l
         | VGrp ms => forallb wireb ms
         end
  end.

(* executable version, for the correspondence check *)
Fixpoint nommb (a : avp) : bool :=
  match a with
  | MkAvp c vd m p len pad v =>
      match v with
      | VLeaf l => match fixed_size (leaf_ty l) with Some k => len =? hdr vd + k | None => true end
      | VGrp ms => forallb nommb ms
      end
  end.

(* ---------- custom induction principle ---------- *)
Section AvpInd.
  Variable P : avp -> Prop.
  Variable Q : value -> Prop.
  Hypothesis HL : forall l, Q (VLeaf l).
  Hypothesis HG : forall ms, Forall P ms -> Q (VGrp ms).
  Hypothesis HA : forall c vd m p len pad v, Q v -> P (MkAvp c vd m p len pad v).
  Fixpoint avp_ind' (a : avp) : P a :=
    match a with MkAvp c vd m p len pad v => HA c vd m p len pad v (val_ind' v) end
  with val_ind' (v : value) : Q v :=
    match v with
    | VLeaf l => HL l
    | VGrp ms => HG ms ((fix go (l : list avp) : Forall P l :=
                          match l with [] => Forall_nil _ | x :: xs => Forall_cons _ (avp_ind' x) (go xs) end) ms)
    end.
End AvpInd.
