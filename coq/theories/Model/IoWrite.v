(* Model of DiameterMessage::encode_to / Avp::encode_to against a fallible std::io::Write
   (C05).  The writer accepts at most [w_budget] octets in total and then fails; every call
   of write() may additionally be capped or interrupted.  std's write_all retries
   Interrupted, treats Ok(0) as an error (WriteZero) and otherwise loops until the buffer
   is empty.  Definitions only. *)
Require Import DV.Base.Bytes DV.Model.Leaf DV.Spec.Wire DV.Model.Avp DV.Model.Message.
Local Open Scope N_scope.

(* per-call behaviour: None = Err(Interrupted); Some c = accept at most c octets this call *)
Record writer := MkW { w_budget : N; w_behav : list (option N) }.

Inductive wres := WrOk (n : N) | WrIntr | WrFail.

(* one call of Write::write with a buffer of n > 0 octets *)
Definition w_write (w : writer) (n : N) : wres * writer :=
  match w_behav w with
  | None :: bs => (WrIntr, MkW (w_budget w) bs)
  | Some c :: bs =>
      if w_budget w =? 0 then (WrFail, MkW 0 bs)
      else let k := N.min (N.min n c) (w_budget w) in (WrOk k, MkW (w_budget w - k) bs)
  | [] =>
      if w_budget w =? 0 then (WrFail, w)
      else let k := N.min n (w_budget w) in (WrOk k, MkW (w_budget w - k) [])
  end.

(* Write::write_all: result, octets the writer accepted during this call, writer afterwards *)
Fixpoint write_all (fuel : nat) (w : writer) (bs : list byte) : option (bool * list byte * writer) :=
  match bs with
  | [] => Some (true, [], w)
  | _ :: _ =>
    match fuel with
    | O => None
    | S f =>
      match w_write w (blen bs) with
      | (WrIntr, w') => write_all f w' bs
      | (WrFail, w') => Some (false, [], w')
      | (WrOk k, w') =>
          if k =? 0 then Some (false, [], w')
          else match write_all f w' (skipn (N.to_nat k) bs) with
               | Some (ok, acc, w'') => Some (ok, firstn (N.to_nat k) bs ++ acc, w'')
               | None => None
               end
      end
    end
  end.

Definition wa_fuel (w : writer) (bs : list byte) : nat := S (length (w_behav w) + length bs).

(* a sequence of write_all calls, `?` after each *)
Fixpoint write_chunks (w : writer) (chunks : list (list byte)) : option (bool * list byte * writer) :=
  match chunks with
  | [] => Some (true, [], w)
  | c :: cs =>
      match write_all (wa_fuel w c) w c with
      | Some (true, acc, w') =>
          match write_chunks w' cs with
          | Some (ok, acc', w'') => Some (ok, acc ++ acc', w'')
          | None => None
          end
      | Some (false, acc, w') => Some (false, acc, w')
      | None => None
      end
  end.

(* the segmentation the code uses: every write_all call of encode_to, in order *)
Definition leaf_chunks (l : leaf) : list (list byte) :=
  match l with
  | LAddr4 s => [[x00; x01]; s]
  | LAddr6 s => [[x00; x02]; s]
  | LAddrE164 s => [[x00; x08]; s]
  | _ => [enc_leaf l]
  end.

Fixpoint avp_chunks (a : avp) : list (list byte) :=
  match a with
  | MkAvp c vd m p len pad v =>
      [be32 c; [b_of_N (flags_byte (is_some vd) m p)]; be24 len]
        ++ (match vd with Some x => [be32 x] | None => [] end)
        ++ val_chunks v ++ repeat [x00] (N.to_nat pad)
  end
with val_chunks (v : value) : list (list byte) :=
  match v with
  | VLeaf l => leaf_chunks l
  | VGrp ms => flat_map avp_chunks ms
  end.

Definition msg_chunks (m : msg) : list (list byte) :=
  [[b_of_N (m_ver m)]; be24 (m_len m); [b_of_N (m_flags m)]; be24 (m_cmd m);
   be32 (m_app m); be32 (m_hbh m); be32 (m_e2e m)] ++ flat_map avp_chunks (m_avps m).

(* DiameterMessage::encode_to(writer): success flag and, when the message is representable,
   the octets the writer accepted.  When it is not representable (a Time outside the 32-bit
   1900-based range, a length field of 2^24 or more) the call fails somewhere in the middle;
   which prefix had been written by then is left unspecified (None). *)
Definition enc_to (m : msg) (w : writer) : option (bool * option (list byte)) :=
  if msg_enc_ok m then
    match write_chunks w (msg_chunks m) with
    | Some (ok, acc, _) => Some (ok, Some acc)
    | None => None
    end
  else Some (false, None).

(* well-behaved per-call caps: never Ok(0) *)
Definition caps_pos (w : writer) : Prop := Forall (fun b => b <> Some 0) (w_behav w).
Definition caps_posb (w : writer) : bool :=
  forallb (fun b => match b with Some c => negb (c =? 0) | None => true end) (w_behav w).
