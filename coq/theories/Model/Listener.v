(* Model of src/transport/server.rs DiameterServer::listen (C10): the accept loop and the
   per-connection tasks, as a state machine over events chosen by an arbitrary scheduler.
   [lstep] is the code after the repair of D9 (the TLS handshake runs inside the connection's
   own task); [lstep_legacy] is the code before it (the accept loop awaits the handshake).
   What a connection's task does with the octets it receives is the per-connection loop of
   Model/Server.v; here it is abstracted to "a function of the octets received on that
   connection" (that it IS such a function is C06/C08).  Definitions only. *)
Require Import DV.Base.Bytes.

Definition cid := nat.

Inductive lev :=
| LAccept (c : cid)                   (* the accept loop takes connection c off the listen queue and spawns its task *)
| LHsDone (c : cid)                   (* c's TLS handshake completes *)
| LHsFail (c : cid)                   (* c's TLS handshake fails (garbage, reset) *)
| LData (c : cid) (bs : list byte)    (* octets arrive from c *)
| LEof (c : cid)                      (* c closes or resets; or its task ends on a malformed frame *)
| LPanic (c : cid).                   (* the handler panics while serving c: tokio::spawn confines it to c's task *)

Definition ev_cid (e : lev) : cid :=
  match e with LAccept c | LHsDone c | LHsFail c | LData c _ | LEof c | LPanic c => c end.

Inductive cphase := PHandshake | PServing | PDead.
Record cst := MkC { ph : cphase; inb : list byte }.

(* one connection on its own: None = the event cannot happen in that state *)
Definition cstep (tls : bool) (s : option cst) (e : lev) : option (option cst) :=
  match s, e with
  | None, LAccept _ => Some (Some (MkC (if tls then PHandshake else PServing) []))
  | None, _ => None
  | Some _, LAccept _ => None
  | Some x, LHsDone _ => match ph x with PHandshake => Some (Some (MkC PServing (inb x))) | _ => None end
  | Some x, LHsFail _ => match ph x with PHandshake => Some (Some (MkC PDead (inb x))) | _ => None end
  | Some x, LData _ bs =>
      match ph x with
      | PServing => Some (Some (MkC PServing (inb x ++ bs)))
      | PHandshake => Some (Some x)          (* handshake octets: not Diameter input *)
      | PDead => Some (Some x)               (* nobody reads them *)
      end
  | Some x, LEof _ => Some (Some (MkC PDead (inb x)))
  | Some x, LPanic _ => match ph x with PServing => Some (Some (MkC PDead (inb x))) | _ => None end
  end.

Fixpoint crun (tls : bool) (s : option cst) (es : list lev) : option (option cst) :=
  match es with
  | [] => Some s
  | e :: es' => match cstep tls s e with Some s' => crun tls s' es' | None => None end
  end.

(* the whole listener: configuration, every connection's state, and (legacy only) the
   connection whose handshake the accept loop is waiting for *)
Record lst := MkL { l_tls : bool; conns : cid -> option cst; busy : option cid }.

Definition lupd (f : cid -> option cst) (c : cid) (x : option cst) : cid -> option cst :=
  fun k => if Nat.eqb k c then x else f k.

Definition linit (tls : bool) : lst := MkL tls (fun _ => None) None.

(* repaired: every event touches the state of its own connection only; the accept loop is never busy *)
Definition lstep (s : lst) (e : lev) : option lst :=
  match cstep (l_tls s) (conns s (ev_cid e)) e with
  | Some x => Some (MkL (l_tls s) (lupd (conns s) (ev_cid e) x) None)
  | None => None
  end.

(* legacy: with TLS the accept loop awaits the handshake of the connection it has just accepted *)
Definition lstep_legacy (s : lst) (e : lev) : option lst :=
  match e, busy s with
  | LAccept _, Some _ => None                                  (* the loop is not at accept() *)
  | _, _ =>
      match cstep (l_tls s) (conns s (ev_cid e)) e with
      | Some x =>
          let b := match e with
                   | LAccept c => if l_tls s then Some c else None
                   | LHsDone c | LHsFail c | LEof c =>
                       match busy s with Some k => if Nat.eqb k c then None else busy s | None => None end
                   | _ => busy s
                   end in
          Some (MkL (l_tls s) (lupd (conns s) (ev_cid e) x) b)
      | None => None
      end
  end.

Fixpoint lrun (step : lst -> lev -> option lst) (s : lst) (es : list lev) : option lst :=
  match es with
  | [] => Some s
  | e :: es' => match step s e with Some s' => lrun step s' es' | None => None end
  end.

(* the events of a trace that concern connection c *)
Definition proj (c : cid) (es : list lev) : list lev := filter (fun e => Nat.eqb (ev_cid e) c) es.
